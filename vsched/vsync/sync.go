// Package sync is the drop-in shim for the parts of package sync used by bgzf and bgzf/cache:
// virtual under the scheduler, the real primitives in pass-through mode.
package sync

import (
	gosync "sync"

	"github.com/biogo/hts/vsched"
)

type Mutex struct{ rw RWMutex }

func (m *Mutex) Lock()   { m.rw.Lock() }
func (m *Mutex) Unlock() { m.rw.Unlock() }

type RWMutex struct {
	real gosync.RWMutex
	st   vsched.RWState
}

func (m *RWMutex) Lock() {
	if vsched.Active() {
		vsched.RWLock(&m.st)
	} else {
		m.real.Lock()
	}
}
func (m *RWMutex) Unlock() {
	if vsched.Active() {
		vsched.RWUnlock(&m.st)
	} else {
		m.real.Unlock()
	}
}
func (m *RWMutex) RLock() {
	if vsched.Active() {
		vsched.RWRLock(&m.st)
	} else {
		m.real.RLock()
	}
}
func (m *RWMutex) RUnlock() {
	if vsched.Active() {
		vsched.RWRUnlock(&m.st)
	} else {
		m.real.RUnlock()
	}
}

type WaitGroup struct {
	real gosync.WaitGroup
	st   vsched.WGState
}

func (w *WaitGroup) Add(n int) {
	if vsched.Active() {
		vsched.WGAdd(&w.st, n)
	} else {
		w.real.Add(n)
	}
}
func (w *WaitGroup) Done() { w.Add(-1) }
func (w *WaitGroup) Wait() {
	if vsched.Active() {
		vsched.WGWait(&w.st)
	} else {
		w.real.Wait()
	}
}

type Once struct {
	real gosync.Once
	st   vsched.OnceState
}

func (o *Once) Do(f func()) {
	if vsched.Active() {
		vsched.OnceDo(&o.st, f)
	} else {
		o.real.Do(f)
	}
}
