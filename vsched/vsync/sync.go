// Package sync is a drop-in shim for the parts of sync used by biogo/hts.
package sync

import "github.com/biogo/hts/vsched"

type Mutex struct{ rw RWMutex }

func (m *Mutex) Lock()   { m.rw.Lock() }
func (m *Mutex) Unlock() { m.rw.Unlock() }

type RWMutex struct{ st vsched.RWState }

func (m *RWMutex) Lock()    { vsched.RWLock(&m.st) }
func (m *RWMutex) Unlock()  { vsched.RWUnlock(&m.st) }
func (m *RWMutex) RLock()   { vsched.RWRLock(&m.st) }
func (m *RWMutex) RUnlock() { vsched.RWRUnlock(&m.st) }

type WaitGroup struct{ st vsched.WGState }

func (w *WaitGroup) Add(n int) { vsched.WGAdd(&w.st, n) }
func (w *WaitGroup) Done()     { vsched.WGAdd(&w.st, -1) }
func (w *WaitGroup) Wait()     { vsched.WGWait(&w.st) }
