package vsched

import "fmt"

type Chan[T any] struct {
	cap    int
	buf    []T
	ev     []uint64 // event hash of the send that produced each buffered message
	closed bool
	sh     uint64 // hash of the last send/close event on this channel
	// rendezvous (cap 0) is modelled as: a send is enabled when a receiver is parked; keep simple:
	// unbuffered channels are not used by bgzf; we model cap 0 as cap 1 with a flag.
	label string
}

func NewChan[T any](n int) *Chan[T] {
	return &Chan[T]{cap: n}
}

func (c *Chan[T]) Name() string { return fmt.Sprintf("chan/%d[%d]", c.cap, len(c.buf)) }

func (c *Chan[T]) canSend() bool {
	if c.closed || len(c.buf) < c.cap {
		return true
	}
	if c.cap == 0 && len(c.buf) == 0 {
		// rendezvous: enabled when another thread is parked receiving on c
		for _, t := range S.threads {
			if t.done || t == S.cur {
				continue
			}
			if t.pend.kind == OpRecv && t.pend.obj == interface{}(c) {
				return true
			}
			if t.pend.kind == OpSelect {
				for _, sc := range t.pend.cases {
					if !sc.send && sc.ch == waitable(c) {
						return true
					}
				}
			}
		}
	}
	return false
}
func (c *Chan[T]) canRecv() bool { return c.closed || len(c.buf) > 0 }

func (c *Chan[T]) doSend(t *Thread, v T) {
	if c.closed {
		panic("send on closed channel")
	}
	c.buf = append(c.buf, v)
	c.sh = t.note(OpSend, c.sh)
	c.ev = append(c.ev, c.sh)
}

func (c *Chan[T]) doRecv(t *Thread) (v T, ok bool) {
	if len(c.buf) > 0 {
		v = c.buf[0]
		c.buf = c.buf[1:]
		t.note(OpRecv, c.ev[0])
		c.ev = c.ev[1:]
		return v, true
	}
	// closed
	t.note(OpRecv, mix(c.sh, 0xc105ed))
	return v, false
}

func (c *Chan[T]) Send(v T) {
	if c == nil {
		point(pending{kind: OpSelect}) // blocks forever
	}
	t := point(pending{kind: OpSend, obj: c})
	c.doSend(t, v)
}

func (c *Chan[T]) Recv() T {
	v, _ := c.Recv2()
	return v
}

func (c *Chan[T]) Recv2() (T, bool) {
	if c == nil {
		point(pending{kind: OpSelect})
	}
	t := point(pending{kind: OpRecv, obj: c})
	return c.doRecv(t)
}

func (c *Chan[T]) Close() {
	t := point(pending{kind: OpClose, obj: c})
	if c.closed {
		panic("close of closed channel")
	}
	c.closed = true
	c.sh = t.note(OpClose, c.sh)
}

func (c *Chan[T]) Len() int { return len(c.buf) }
func (c *Chan[T]) Cap() int {
	if c == nil {
		return 0
	}
	return c.cap
}

// Case describes one select case.
type Case struct {
	w    waitable
	send bool
	isNil bool
}

func (c *Chan[T]) RecvCase() Case {
	if c == nil {
		return Case{isNil: true}
	}
	return Case{w: c}
}
func (c *Chan[T]) SendCase() Case {
	if c == nil {
		return Case{isNil: true}
	}
	return Case{w: c, send: true}
}

// Select parks until one case is ready (or default) and returns the chosen case index, -1 for default.
// The caller then performs the operation with DoRecv/DoSend.
func Select(hasDefault bool, cases ...Case) int {
	sc := make([]selCase, len(cases))
	for i, c := range cases {
		if !c.isNil {
			sc[i] = selCase{ch: c.w, send: c.send}
		}
	}
	point(pending{kind: OpSelect, cases: sc, hasDef: hasDefault})
	var ready []int
	for i, c := range sc {
		if c.ch == nil {
			continue
		}
		if c.send && c.ch.canSend() || !c.send && c.ch.canRecv() {
			ready = append(ready, i)
		}
	}
	if len(ready) == 0 {
		cur().note(OpSelect, 0xdef)
		return -1
	}
	return ready[Choose(len(ready))]
}

// SelRecv performs the receive of a chosen select case.
func (c *Chan[T]) SelRecv() (T, bool) { return c.doRecv(cur()) }

// SelSend performs the send of a chosen select case.
func (c *Chan[T]) SelSend(v T) { c.doSend(cur(), v) }
