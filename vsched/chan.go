package vsched

import (
	"fmt"
	"reflect"
)

// Chan is the controlled replacement of chan T. Created inside an exploration it is virtual
// (state owned by the scheduler); created outside it wraps a real channel (pass-through).
type Chan[T any] struct {
	real chan T // pass-through mode

	cap    int
	buf    []T
	ev     []uint64 // event hash of the send that produced each buffered message
	closed bool
	sh     uint64 // hash of the last send/close event on this channel (FIFO order is state)
}

func NewChan[T any](n int) *Chan[T] {
	if S == nil {
		return &Chan[T]{real: make(chan T, n)}
	}
	return &Chan[T]{cap: n}
}

func (c *Chan[T]) virt() {
	if c.real != nil {
		panic("vsched: pass-through channel used under the scheduler (object created outside Run)")
	}
}

func (c *Chan[T]) canSend() bool {
	if c.closed || len(c.buf) < c.cap {
		return true
	}
	if c.cap == 0 && len(c.buf) == 0 {
		// rendezvous: a send is enabled when another thread is parked receiving on c
		for _, t := range S.threads {
			if t.done || t == S.cur {
				continue
			}
			if t.pend.kind == OpRecv && t.pend.obj == interface{}(c) {
				return true
			}
			if t.pend.kind == OpSelect {
				for _, sc := range t.pend.cases {
					if !sc.send && sc.ch == waitable(c) {
						return true
					}
				}
			}
		}
	}
	return false
}

func (c *Chan[T]) canRecv() bool { return c.closed || len(c.buf) > 0 }

func (c *Chan[T]) doSend(t *Thread, v T) {
	if c.closed {
		panic("send on closed channel")
	}
	c.buf = append(c.buf, v)
	c.sh = t.note(OpSend, c.sh)
	c.ev = append(c.ev, c.sh)
}

func (c *Chan[T]) doRecv(t *Thread) (v T, ok bool) {
	if len(c.buf) > 0 {
		v = c.buf[0]
		var zero T
		c.buf[0] = zero
		c.buf = c.buf[1:]
		t.note(OpRecv, c.ev[0])
		c.ev = c.ev[1:]
		return v, true
	}
	if !c.closed {
		panic("vsched: receive scheduled on empty open channel")
	}
	t.note(OpRecv, mix(c.sh, 0xc105ed))
	return v, false
}

func (c *Chan[T]) Send(v T) {
	if S == nil {
		if c == nil {
			select {}
		}
		c.real <- v
		return
	}
	if c == nil {
		point(pending{kind: OpBlockForever})
	}
	c.virt()
	t := point(pending{kind: OpSend, obj: c})
	c.doSend(t, v)
}

func (c *Chan[T]) Recv() T {
	v, _ := c.Recv2()
	return v
}

func (c *Chan[T]) Recv2() (T, bool) {
	if S == nil {
		if c == nil {
			select {}
		}
		v, ok := <-c.real
		return v, ok
	}
	if c == nil {
		point(pending{kind: OpBlockForever})
	}
	c.virt()
	t := point(pending{kind: OpRecv, obj: c})
	return c.doRecv(t)
}

func (c *Chan[T]) Close() {
	if S == nil {
		close(c.real)
		return
	}
	c.virt()
	t := point(pending{kind: OpClose, obj: c})
	if c.closed {
		panic("close of closed channel")
	}
	c.closed = true
	c.sh = t.note(OpClose, c.sh)
}

func (c *Chan[T]) Len() int {
	if c == nil {
		return 0
	}
	if c.real != nil {
		return len(c.real)
	}
	return len(c.buf)
}

func (c *Chan[T]) Cap() int {
	if c == nil {
		return 0
	}
	if c.real != nil {
		return cap(c.real)
	}
	return c.cap
}

func (c *Chan[T]) String() string { return fmt.Sprintf("chan(cap %d, len %d)", c.Cap(), c.Len()) }

// Case describes one select case.
type Case struct {
	w     waitable
	send  bool
	isNil bool
	rv    reflect.Value // pass-through: the real channel
}

func (c *Chan[T]) RecvCase() Case {
	if c == nil {
		return Case{isNil: true}
	}
	if c.real != nil {
		return Case{rv: reflect.ValueOf(c.real)}
	}
	return Case{w: c}
}

func (c *Chan[T]) SendCase() Case {
	if c == nil {
		return Case{isNil: true}
	}
	if c.real != nil {
		panic("vsched: select send case is not supported in pass-through mode")
	}
	return Case{w: c, send: true}
}

// Sel is the result of a Select: the index of the chosen case (-1 for default) and, in
// pass-through mode, the value already received.
type Sel struct {
	I   int
	val reflect.Value
	ok  bool
	pt  bool
}

// Select parks until one case is ready (or default). The caller performs the chosen
// operation with SelRecv/SelSend.
func Select(hasDefault bool, cases ...Case) Sel {
	if S == nil {
		rc := make([]reflect.SelectCase, 0, len(cases)+1)
		idx := make([]int, 0, len(cases)+1)
		for i, c := range cases {
			if c.isNil {
				continue
			}
			rc = append(rc, reflect.SelectCase{Dir: reflect.SelectRecv, Chan: c.rv})
			idx = append(idx, i)
		}
		if hasDefault {
			rc = append(rc, reflect.SelectCase{Dir: reflect.SelectDefault})
			idx = append(idx, -1)
		}
		if len(rc) == 0 {
			select {}
		}
		ch, v, ok := reflect.Select(rc)
		return Sel{I: idx[ch], val: v, ok: ok, pt: true}
	}
	sc := make([]selCase, len(cases))
	for i, c := range cases {
		if !c.isNil {
			sc[i] = selCase{ch: c.w, send: c.send}
		}
	}
	t := point(pending{kind: OpSelect, cases: sc, hasDef: hasDefault})
	var ready []int
	for i, c := range sc {
		if c.ch == nil {
			continue
		}
		if c.send && c.ch.canSend() || !c.send && c.ch.canRecv() {
			ready = append(ready, i)
		}
	}
	if len(ready) == 0 {
		if !hasDefault {
			panic("vsched: select scheduled with no ready case")
		}
		t.note(OpSelect, 0xdef)
		return Sel{I: -1}
	}
	return Sel{I: ready[Choose(len(ready))]}
}

// SelRecv performs (or, in pass-through mode, returns the result of) the receive chosen by Select.
func SelRecv[T any](c *Chan[T], s Sel) (T, bool) {
	if s.pt {
		var zero T
		if !s.ok {
			return zero, false
		}
		return s.val.Interface().(T), true
	}
	return c.doRecv(cur())
}

// SelSend performs the send chosen by Select.
func SelSend[T any](c *Chan[T], s Sel, v T) { c.doSend(cur(), v) }
