// Package vsched is a cooperative scheduler + stateless explorer runtime.
package vsched

import (
	"fmt"
	"runtime"
	"sort"
)

type OpKind uint8

const (
	OpStart OpKind = iota
	OpSend
	OpRecv
	OpSelect
	OpClose
	OpLock
	OpRLock
	OpUnlock
	OpRUnlock
	OpWgAdd
	OpWgWait
	OpYield
	OpChoice
)

// object is anything with an enabledness predicate.
type waitable interface {
	canSend() bool
	canRecv() bool
}

type selCase struct {
	ch   waitable
	send bool
}

type pending struct {
	kind   OpKind
	obj    interface{}
	cases  []selCase
	hasDef bool
	n      int // OpChoice: number of alternatives
}

type Thread struct {
	id    int
	hist  uint64
	nkid  int
	wake  chan struct{}
	pend  pending
	done  bool
	sel   int // chosen select case / choice result
	name  string
}

type Point struct {
	Enabled []int // thread ids (or alternative indexes for choice points)
	Chosen  int   // index into Enabled
	Running int   // thread that was running when the point was reached (-1 none)
	RunEn   bool  // running thread still enabled
	Choice  bool  // data choice (select / map order), not a thread switch
}

type Outcome struct {
	Points   []Point
	Deadlock bool
	Blocked  []string // descriptions of threads blocked at deadlock
	Panic    interface{}
	PanicStk string
	Pruned   bool
	Leaked   []string
	Steps    int
}

type Sched struct {
	threads []*Thread
	cur     *Thread
	toSched chan *Thread
	abort   bool
	prefix  []int
	out     Outcome
	// pruning
	visit    func(key uint64, idx int) bool // returns true to prune
	maxSteps int
	mainDone bool
}

var S *Sched

func mix(h, v uint64) uint64 {
	h ^= v + 0x9e3779b97f4a7c15 + (h << 6) + (h >> 2)
	h *= 0xff51afd7ed558ccd
	h ^= h >> 33
	return h
}

// Cur returns the running thread.
func cur() *Thread {
	if S == nil {
		panic("vsched: operation outside an exploration")
	}
	return S.cur
}

// note appends an event to the thread's happens-before hash: the event depends on the
// thread's previous event and on dep (the hash of the event it synchronises with).
func (t *Thread) note(kind OpKind, dep uint64) uint64 {
	t.hist = mix(mix(t.hist, uint64(kind)), dep)
	return t.hist
}

// point parks the current thread with pending op p until the scheduler picks it.
func point(p pending) *Thread {
	s := S
	t := s.cur
	if s.abort {
		runtime.Goexit()
	}
	t.pend = p
	s.toSched <- t
	<-t.wake
	if s.abort {
		runtime.Goexit()
	}
	return t
}

// Go starts f as a new controlled thread.
func Go(f func()) {
	s := S
	p := s.cur
	p.nkid++
	t := &Thread{id: len(s.threads), wake: make(chan struct{}, 1)}
	t.hist = mix(mix(p.hist, 0x5157), uint64(p.nkid))
	t.pend = pending{kind: OpStart}
	s.threads = append(s.threads, t)
	go s.runThread(t, f)
}

func (s *Sched) runThread(t *Thread, f func()) {
	<-t.wake
	defer func() {
		if r := recover(); r != nil {
			if s.out.Panic == nil {
				s.out.Panic = r
				buf := make([]byte, 8192)
				s.out.PanicStk = string(buf[:runtime.Stack(buf, false)])
			}
		}
		t.done = true
		s.toSched <- t
	}()
	if s.abort {
		return
	}
	t.note(OpStart, 0)
	f()
}

func (s *Sched) enabled(t *Thread) bool {
	if t.done {
		return false
	}
	p := &t.pend
	switch p.kind {
	case OpStart, OpClose, OpUnlock, OpRUnlock, OpWgAdd, OpYield, OpChoice:
		return true
	case OpSend:
		return p.obj.(waitable).canSend()
	case OpRecv:
		return p.obj.(waitable).canRecv()
	case OpSelect:
		if p.hasDef {
			return true
		}
		for _, c := range p.cases {
			if c.ch == nil {
				continue
			}
			if c.send && c.ch.canSend() || !c.send && c.ch.canRecv() {
				return true
			}
		}
		return false
	case OpLock:
		return p.obj.(lockable).canLock()
	case OpRLock:
		return p.obj.(lockable).canRLock()
	case OpWgWait:
		return p.obj.(interface{ zero() bool }).zero()
	}
	panic("vsched: bad op")
}

type lockable interface {
	canLock() bool
	canRLock() bool
}

func (s *Sched) stateKey() uint64 {
	hs := make([]uint64, 0, len(s.threads))
	for _, t := range s.threads {
		v := t.hist
		if t.done {
			v = mix(v, 0xdead)
		}
		hs = append(hs, v)
	}
	sort.Slice(hs, func(i, j int) bool { return hs[i] < hs[j] })
	var k uint64 = 0x1234
	for _, h := range hs {
		k = mix(k, h)
	}
	if s.cur != nil {
		k = mix(k, s.cur.hist)
	}
	return k
}

// decide consumes one choice: from the prefix if available else 0.
func (s *Sched) decide(n int, pt Point) int {
	idx := len(s.out.Points)
	c := 0
	if idx < len(s.prefix) {
		c = s.prefix[idx]
		if c >= n {
			panic(fmt.Sprintf("vsched: replay divergence at point %d: choice %d of %d", idx, c, n))
		}
	}
	pt.Chosen = c
	s.out.Points = append(s.out.Points, pt)
	return c
}

// Choose is a data choice point usable by harness code and shims (select, map order).
func Choose(n int) int {
	if n <= 1 {
		return 0
	}
	s := S
	en := make([]int, n)
	for i := range en {
		en[i] = i
	}
	c := s.decide(n, Point{Enabled: en, Running: s.cur.id, Choice: true})
	s.cur.note(OpChoice, uint64(c))
	return c
}

// Run executes body under the scheduler following prefix then default choices.
func Run(prefix []int, maxSteps int, visit func(key uint64, idx int) bool, body func()) Outcome {
	s := &Sched{toSched: make(chan *Thread), prefix: prefix, visit: visit, maxSteps: maxSteps}
	return s.run(body)
}

func (s *Sched) run(body func()) Outcome {
	S = s
	main := &Thread{id: 0, wake: make(chan struct{}, 1), hist: 1, name: "main"}
	main.pend = pending{kind: OpStart}
	s.threads = append(s.threads, main)
	go s.runThread(main, body)
	var running *Thread
	for {
		if running != nil {
			<-s.toSched
			if s.out.Panic != nil {
				break
			}
		}
		s.out.Steps++
		var en []int
		runEn := false
		// canonical order: running thread first if enabled, then ascending ids
		if running != nil && s.enabled(running) {
			en = append(en, running.id)
			runEn = true
		}
		for _, t := range s.threads {
			if t != running && s.enabled(t) {
				en = append(en, t.id)
			}
		}
		if len(en) == 0 {
			alive := false
			for _, t := range s.threads {
				if !t.done {
					alive = true
					s.out.Blocked = append(s.out.Blocked, fmt.Sprintf("t%d:%s", t.id, descr(&t.pend)))
				}
			}
			if alive {
				if s.threads[0].done {
					s.out.Leaked = s.out.Blocked
					s.out.Blocked = nil
				} else {
					s.out.Deadlock = true
				}
			}
			break
		}
		if s.maxSteps > 0 && s.out.Steps > s.maxSteps {
			s.out.Deadlock = true
			s.out.Blocked = append(s.out.Blocked, "step horizon exceeded (livelock?)")
			break
		}
		idx := len(s.out.Points)
		if s.visit != nil && idx >= len(s.prefix) {
			s.cur = running
			if s.visit(s.stateKey(), idx) {
				s.out.Pruned = true
				break
			}
		}
		rid := -1
		if running != nil {
			rid = running.id
		}
		c := 0
		if len(en) > 1 {
			c = s.decide(len(en), Point{Enabled: en, Running: rid, RunEn: runEn})
		}
		running = s.threads[en[c]]
		s.cur = running
		running.wake <- struct{}{}
	}
	// tear down: abort all parked threads
	s.abort = true
	for _, t := range s.threads {
		if !t.done && t != running {
			t.wake <- struct{}{}
			<-s.toSched
		} else if !t.done && t == running && s.out.Panic == nil {
			// running thread is parked in point() too (it sent toSched)
			t.wake <- struct{}{}
			<-s.toSched
		}
	}
	S = nil
	return s.out
}

func descr(p *pending) string {
	names := []string{"start", "send", "recv", "select", "close", "lock", "rlock", "unlock", "runlock", "wgadd", "wgwait", "yield", "choice"}
	s := names[p.kind]
	if n, ok := p.obj.(interface{ Name() string }); ok {
		s += "(" + n.Name() + ")"
	}
	return s
}

// Yield is an explicit scheduling point (used by harness I/O doubles).
func Yield() { t := point(pending{kind: OpYield}); t.note(OpYield, 0) }

func Go1[A any](f func(A), a A)                { Go(func() { f(a) }) }
func Go2[A, B any](f func(A, B), a A, b B)      { Go(func() { f(a, b) }) }
func Go3[A, B, C any](f func(A, B, C), a A, b B, c C) { Go(func() { f(a, b, c) }) }

type ordered interface {
	~int | ~int8 | ~int16 | ~int32 | ~int64 | ~uint | ~uint8 | ~uint16 | ~uint32 | ~uint64 | ~string
}

// MapKeys returns the keys of m in an order chosen by the explorer (default ascending).
func MapKeys[K ordered, V any](m map[K]V) []K {
	ks := make([]K, 0, len(m))
	for k := range m {
		ks = append(ks, k)
	}
	sort.Slice(ks, func(i, j int) bool { return ks[i] < ks[j] })
	// choose a permutation by successive selection
	for i := 0; i < len(ks)-1; i++ {
		j := i + Choose(len(ks)-i)
		ks[i], ks[j] = ks[j], ks[i]
	}
	return ks
}
