// Package vsched is the cooperative scheduler under which the instrumented bgzf code runs.
//
// Every goroutine of the code under test is a real goroutine that runs only while it holds the
// baton. Before each synchronisation operation it publishes the pending operation and parks;
// the scheduler computes the enabled set from the virtual object state, asks the explorer which
// thread goes next, and that thread performs the operation atomically and runs to its next
// operation. Outside an exploration (S == nil) all primitives fall through to the real Go ones
// (pass-through mode), which is how the repository's own tests are run against the
// instrumented build to validate the rewrite.
package vsched

import (
	"fmt"
	"io"
	"runtime"
	"sort"
	"strings"
)

type OpKind uint8

const (
	OpStart OpKind = iota
	OpSend
	OpRecv
	OpSelect
	OpClose
	OpLock
	OpRLock
	OpUnlock
	OpRUnlock
	OpWgAdd
	OpWgWait
	OpYield
	OpChoice
	OpBlockForever
	OpOnce
)

var opNames = []string{"start", "send", "recv", "select", "close", "lock", "rlock", "unlock", "runlock", "wgadd", "wgwait", "yield", "choice", "nilchan", "once"}

type waitable interface {
	canSend() bool
	canRecv() bool
}

type lockable interface {
	canLock() bool
	canRLock() bool
}

type selCase struct {
	ch   waitable
	send bool
}

type pending struct {
	kind   OpKind
	obj    interface{}
	cases  []selCase
	hasDef bool
}

// Thread is one controlled goroutine.
type Thread struct {
	id   int
	hist uint64 // rolling hash of this thread's event history (happens-before fingerprint)
	nkid int
	wake chan struct{}
	pend pending
	done bool
	site string // where the thread was parked when the execution was torn down
	psite string // tracing only: where the pending operation was issued
}

// Point is one choice point of an execution.
type Point struct {
	N       int  // number of alternatives
	Chosen  int  // index taken
	RunEn   bool // thread switch point at which the running thread was still enabled
	Choice  bool // data choice (select case, map order, harness Choose), not a thread switch
	Running int
}

// Outcome describes one execution.
type Outcome struct {
	Points    []Point
	Deadlock  bool
	Livelock  bool
	Blocked   []string // "site/op" of every thread blocked at the end (deadlock or leak)
	Leaked    bool
	Panic     interface{}
	PanicSite string
	PanicStk  string
	Pruned    bool
	Steps     int
	Final     uint64 // hash of all final thread histories: identical for identical executions
	Threads   int
}

// Choices returns the choice sequence of the execution.
func (o *Outcome) Choices() []int {
	c := make([]int, len(o.Points))
	for i, p := range o.Points {
		c[i] = p.Chosen
	}
	return c
}

type Sched struct {
	threads  []*Thread
	cur      *Thread
	toSched  chan *Thread
	abort    bool
	prefix   []int
	out      Outcome
	preempts int
	// visit is called at every thread-switch point beyond the forced prefix with the state key
	// and the number of preemptions used so far; returning true cuts the execution.
	visit    func(key uint64, preempts int) bool
	maxSteps int
	diverged string
	trace    io.Writer
}

// S is the active scheduler; nil means pass-through mode.
var S *Sched

// Active reports whether the caller runs under the scheduler.
func Active() bool { return S != nil }

func mix(h, v uint64) uint64 {
	h ^= v + 0x9e3779b97f4a7c15 + (h << 6) + (h >> 2)
	h *= 0xff51afd7ed558ccd
	h ^= h >> 33
	return h
}

// note appends an event to the thread's history: it depends on the thread's previous event
// and on dep (the hash of the event it synchronises with).
func (t *Thread) note(kind OpKind, dep uint64) uint64 {
	t.hist = mix(mix(t.hist, uint64(kind)+1), dep)
	return t.hist
}

func cur() *Thread { return S.cur }

// librarySite returns the innermost frame of the calling goroutine that lies in the library
// proper (not vsched, not its sync shim).
func librarySite(skip int) string {
	pcs := make([]uintptr, 48)
	n := runtime.Callers(skip, pcs)
	frames := runtime.CallersFrames(pcs[:n])
	harness := ""
	for {
		fr, more := frames.Next()
		fn := fr.Function
		if strings.Contains(fn, "github.com/biogo/hts/") && !strings.Contains(fn, "/vsched") {
			return strings.TrimPrefix(fn, "github.com/biogo/hts/")
		}
		if harness == "" && !strings.Contains(fn, "/vsched") && !strings.HasPrefix(fn, "runtime.") && fn != "" {
			harness = fn
		}
		if !more {
			break
		}
	}
	if harness != "" {
		return "harness:" + harness[strings.LastIndex(harness, "/")+1:]
	}
	return "?"
}

// point parks the current thread with pending operation p until the scheduler picks it.
func point(p pending) *Thread {
	s := S
	t := s.cur
	if s.abort {
		runtime.Goexit()
	}
	t.pend = p
	if s.trace != nil {
		t.psite = librarySite(3)
	}
	s.toSched <- t
	<-t.wake
	if s.abort {
		t.site = librarySite(3)
		runtime.Goexit()
	}
	return t
}

// Go starts f as a new controlled thread (pass-through: a plain goroutine).
func Go(f func()) {
	s := S
	if s == nil {
		go f()
		return
	}
	p := s.cur
	p.nkid++
	t := &Thread{id: len(s.threads), wake: make(chan struct{}, 1)}
	t.hist = mix(mix(p.hist, 0x5157), uint64(p.nkid))
	p.note(OpStart, uint64(p.nkid))
	t.pend = pending{kind: OpStart}
	s.threads = append(s.threads, t)
	go s.runThread(t, f)
}

func Go1[A any](f func(A), a A)                       { Go(func() { f(a) }) }
func Go2[A, B any](f func(A, B), a A, b B)            { Go(func() { f(a, b) }) }
func Go3[A, B, C any](f func(A, B, C), a A, b B, c C) { Go(func() { f(a, b, c) }) }

func (s *Sched) runThread(t *Thread, f func()) {
	<-t.wake
	defer func() {
		if !s.abort {
			if r := recover(); r != nil {
				if s.out.Panic == nil {
					s.out.Panic = r
					s.out.PanicSite = librarySite(3)
					buf := make([]byte, 16384)
					s.out.PanicStk = string(buf[:runtime.Stack(buf, false)])
				}
			}
		}
		t.done = true
		s.toSched <- t
	}()
	if s.abort {
		return
	}
	t.note(OpStart, 0)
	f()
}

func (s *Sched) enabled(t *Thread) bool {
	if t.done {
		return false
	}
	p := &t.pend
	switch p.kind {
	case OpStart, OpClose, OpUnlock, OpRUnlock, OpWgAdd, OpYield, OpChoice, OpOnce:
		return true
	case OpBlockForever:
		return false
	case OpSend:
		return p.obj.(waitable).canSend()
	case OpRecv:
		return p.obj.(waitable).canRecv()
	case OpSelect:
		if p.hasDef {
			return true
		}
		for _, c := range p.cases {
			if c.ch == nil {
				continue
			}
			if c.send && c.ch.canSend() || !c.send && c.ch.canRecv() {
				return true
			}
		}
		return false
	case OpLock:
		return p.obj.(lockable).canLock()
	case OpRLock:
		return p.obj.(lockable).canRLock()
	case OpWgWait:
		return p.obj.(interface{ zero() bool }).zero()
	}
	panic("vsched: bad op")
}

func (s *Sched) stateKey(running *Thread) uint64 {
	hs := make([]uint64, 0, len(s.threads))
	for _, t := range s.threads {
		v := t.hist
		if t.done {
			v = mix(v, 0xdead)
		}
		hs = append(hs, v)
	}
	sort.Slice(hs, func(i, j int) bool { return hs[i] < hs[j] })
	var k uint64 = 0x1234
	for _, h := range hs {
		k = mix(k, h)
	}
	if running != nil {
		k = mix(k, running.hist) // who holds the baton matters for preemption accounting
	}
	return k
}

// decide consumes one choice: from the forced prefix if available, else 0.
func (s *Sched) decide(pt Point) int {
	idx := len(s.out.Points)
	c := 0
	if idx < len(s.prefix) {
		c = s.prefix[idx]
		if c >= pt.N {
			// replaying a prefix must fit exactly; anything else is nondeterminism we do not own
			s.diverged = fmt.Sprintf("replay divergence at point %d: choice %d of %d alternatives", idx, c, pt.N)
			c = 0
		}
	}
	pt.Chosen = c
	s.out.Points = append(s.out.Points, pt)
	return c
}

// Choose is a data choice point (select with several ready cases, map order, harness decisions).
func Choose(n int) int {
	if n <= 1 {
		return 0
	}
	s := S
	if s == nil {
		return 0
	}
	c := s.decide(Point{N: n, Running: s.cur.id, Choice: true})
	s.cur.note(OpChoice, uint64(c)+uint64(n)<<32)
	return c
}

// Config for one execution.
type Config struct {
	Prefix   []int
	MaxSteps int
	Visit    func(key uint64, preempts int) bool
	Trace    io.Writer // if set, every scheduled operation is written out
}

// Run executes body as the main thread under the scheduler.
func Run(cfg Config, body func()) (out Outcome, diverged string) {
	s := &Sched{toSched: make(chan *Thread), prefix: cfg.Prefix, visit: cfg.Visit, maxSteps: cfg.MaxSteps, trace: cfg.Trace}
	if s.maxSteps == 0 {
		s.maxSteps = 200000
	}
	return s.run(body)
}

func (s *Sched) run(body func()) (Outcome, string) {
	if S != nil {
		panic("vsched: nested Run")
	}
	S = s
	main := &Thread{id: 0, wake: make(chan struct{}, 1), hist: 1}
	main.pend = pending{kind: OpStart}
	s.threads = append(s.threads, main)
	go s.runThread(main, body)
	var running *Thread
	for {
		if running != nil {
			<-s.toSched
			if s.out.Panic != nil {
				break
			}
		}
		s.out.Steps++
		var en []*Thread
		runEn := false
		// canonical order: the running thread first if still enabled, then ascending ids
		if running != nil && s.enabled(running) {
			en = append(en, running)
			runEn = true
		}
		for _, t := range s.threads {
			if t != running && s.enabled(t) {
				en = append(en, t)
			}
		}
		if len(en) == 0 {
			for _, t := range s.threads {
				if !t.done {
					if s.threads[0].done {
						s.out.Leaked = true
					} else {
						s.out.Deadlock = true
					}
				}
			}
			break
		}
		if s.out.Steps > s.maxSteps {
			s.out.Livelock = true
			break
		}
		if s.visit != nil && len(s.out.Points) >= len(s.prefix) && len(en) > 1 {
			if s.visit(s.stateKey(running), s.preempts) {
				s.out.Pruned = true
				break
			}
		}
		c := 0
		if len(en) > 1 {
			rid := -1
			if running != nil {
				rid = running.id
			}
			c = s.decide(Point{N: len(en), Running: rid, RunEn: runEn})
			if runEn && c != 0 {
				s.preempts++
			}
		}
		running = en[c]
		s.cur = running
		if s.trace != nil {
			alt := ""
			if len(en) > 1 {
				alt = fmt.Sprintf("   [choice %d of %d]", c, len(en))
			}
			fmt.Fprintf(s.trace, "  t%d %-8s %s%s\n", running.id, opNames[running.pend.kind], running.psite, alt)
		}
		running.wake <- struct{}{}
	}
	// tear down: release every parked thread in abort mode; each records where it was parked
	s.abort = true
	for _, t := range s.threads {
		if !t.done {
			t.wake <- struct{}{}
			<-s.toSched
		}
	}
	if s.out.Deadlock || s.out.Leaked || s.out.Livelock {
		for _, t := range s.threads {
			if t.site != "" {
				s.out.Blocked = append(s.out.Blocked, t.site+"/"+opNames[t.pend.kind])
			}
		}
		sort.Strings(s.out.Blocked)
	}
	hs := make([]uint64, 0, len(s.threads))
	for _, t := range s.threads {
		hs = append(hs, t.hist)
	}
	sort.Slice(hs, func(i, j int) bool { return hs[i] < hs[j] })
	var k uint64 = 7
	for _, h := range hs {
		k = mix(k, h)
	}
	s.out.Final = k
	s.out.Threads = len(s.threads)
	S = nil
	return s.out, s.diverged
}

// Yield is an explicit scheduling point (used by harness I/O doubles).
func Yield() {
	if S == nil {
		runtime.Gosched()
		return
	}
	t := point(pending{kind: OpYield})
	t.note(OpYield, 0)
}

type ordered interface {
	~int | ~int8 | ~int16 | ~int32 | ~int64 | ~uint | ~uint8 | ~uint16 | ~uint32 | ~uint64 | ~string
}

// MapKeys returns the keys of m in an order chosen by the explorer (default ascending).
// In pass-through mode the order is Go's own (random) map order.
func MapKeys[K ordered, V any](m map[K]V) []K {
	ks := make([]K, 0, len(m))
	for k := range m {
		ks = append(ks, k)
	}
	if S == nil {
		return ks
	}
	sort.Slice(ks, func(i, j int) bool { return ks[i] < ks[j] })
	for i := 0; i < len(ks)-1; i++ {
		j := i + Choose(len(ks)-i)
		ks[i], ks[j] = ks[j], ks[i]
	}
	return ks
}
