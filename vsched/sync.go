package vsched

// PostRelease adds a scheduling point after every Unlock/RUnlock. Points before each
// synchronisation operation are enough for race-free code; this option lets another thread run
// between the end of a critical section and the statements that follow it, which is where a
// shortened critical section (a read moved after the unlock) shows. It is set per scenario
// before exploring or replaying and never changed during one.
var PostRelease bool

// RWState is the virtual state of a (RW)Mutex. Read sections are hashed commutatively: an
// RLock depends only on the last write section, RUnlocks accumulate by addition into what the
// next Lock depends on, so the order of concurrent readers is not part of the state key.
type RWState struct {
	writer  bool
	readers int
	wver    uint64 // hash of the last Lock/Unlock event
	racc    uint64 // sum of the RUnlock event hashes since the last Lock
}

func (m *RWState) canLock() bool  { return !m.writer && m.readers == 0 }
func (m *RWState) canRLock() bool { return !m.writer }

func RWLock(m *RWState) {
	t := point(pending{kind: OpLock, obj: m})
	m.writer = true
	m.wver = t.note(OpLock, mix(m.wver, m.racc))
	m.racc = 0
}

func RWUnlock(m *RWState) {
	t := point(pending{kind: OpUnlock, obj: m})
	if !m.writer {
		panic("sync: unlock of unlocked mutex")
	}
	m.writer = false
	m.wver = t.note(OpUnlock, m.wver)
	if PostRelease {
		Yield()
	}
}

func RWRLock(m *RWState) {
	t := point(pending{kind: OpRLock, obj: m})
	m.readers++
	t.note(OpRLock, m.wver)
}

func RWRUnlock(m *RWState) {
	t := point(pending{kind: OpRUnlock, obj: m})
	if m.readers == 0 {
		panic("sync: RUnlock of unlocked RWMutex")
	}
	m.readers--
	m.racc += t.note(OpRUnlock, 0)
	if PostRelease {
		Yield()
	}
}

// WGState is the virtual state of a WaitGroup; Add events commute (sum of event hashes).
type WGState struct {
	n   int
	acc uint64
}

func (w *WGState) zero() bool { return w.n == 0 }

func WGAdd(w *WGState, n int) {
	t := point(pending{kind: OpWgAdd, obj: w})
	w.n += n
	if w.n < 0 {
		panic("sync: negative WaitGroup counter")
	}
	w.acc += t.note(OpWgAdd, uint64(int64(n)))
}

func WGWait(w *WGState) {
	t := point(pending{kind: OpWgWait, obj: w})
	t.note(OpWgWait, w.acc)
}

// OnceState is the virtual state of a sync.Once.
type OnceState struct {
	done bool
	m    RWState
}

func OnceDo(o *OnceState, f func()) {
	RWLock(&o.m)
	if !o.done {
		defer func() { o.done = true; RWUnlock(&o.m) }()
		f()
		return
	}
	RWUnlock(&o.m)
}
