package vsched

type RWState struct {
	writer  bool
	readers int
	ver     uint64
}

func (m *RWState) canLock() bool  { return !m.writer && m.readers == 0 }
func (m *RWState) canRLock() bool { return !m.writer }
func (m *RWState) Name() string   { return "rwmutex" }

func RWLock(m *RWState) {
	t := point(pending{kind: OpLock, obj: m})
	m.writer = true
	m.ver = t.note(OpLock, m.ver)
}
func RWUnlock(m *RWState) {
	t := point(pending{kind: OpUnlock, obj: m})
	if !m.writer {
		panic("sync: unlock of unlocked mutex")
	}
	m.writer = false
	m.ver = t.note(OpUnlock, m.ver)
}
func RWRLock(m *RWState) {
	t := point(pending{kind: OpRLock, obj: m})
	m.readers++
	m.ver = t.note(OpRLock, m.ver)
}
func RWRUnlock(m *RWState) {
	t := point(pending{kind: OpRUnlock, obj: m})
	if m.readers == 0 {
		panic("sync: RUnlock of unlocked RWMutex")
	}
	m.readers--
	m.ver = t.note(OpRUnlock, m.ver)
}

type WGState struct {
	n   int
	ver uint64
}

func (w *WGState) zero() bool   { return w.n == 0 }
func (w *WGState) Name() string { return "waitgroup" }

func WGAdd(w *WGState, n int) {
	t := point(pending{kind: OpWgAdd, obj: w})
	w.n += n
	if w.n < 0 {
		panic("sync: negative WaitGroup counter")
	}
	w.ver = t.note(OpWgAdd, w.ver)
}
func WGWait(w *WGState) {
	t := point(pending{kind: OpWgWait, obj: w})
	t.note(OpWgWait, w.ver)
}
