package vsched

// Stats of one exploration.
type Stats struct {
	Executions int
	Pruned     int
	States     int
	Steps      int
	MaxPoints  int
	Deadlocks  int
	Outcomes   map[string]int
}

// Explore runs body under every schedule with at most bound preemptions (bound<0: unbounded),
// calling check after each complete execution. It stops at the first failing check.
func Explore(bound int, cache bool, maxExec int, body func(), check func(Outcome) string) (Stats, []int, string) {
	st := Stats{Outcomes: map[string]int{}}
	visited := map[uint64]int{}
	type item struct{ prefix []int }
	stack := []item{{nil}}
	for len(stack) > 0 {
		it := stack[len(stack)-1]
		stack = stack[:len(stack)-1]
		if maxExec > 0 && st.Executions >= maxExec {
			break
		}
		// budget used along the prefix is recomputed during the run
		used := 0
		var visit func(uint64, int) bool
		var ptsSoFar *[]Point
		if cache {
			visit = func(k uint64, idx int) bool {
				// remaining budget at this state
				u := 0
				for _, p := range (*ptsSoFar)[:idx] {
					if !p.Choice && p.RunEn && p.Chosen != 0 {
						u++
					}
				}
				rem := 1 << 30
				if bound >= 0 {
					rem = bound - u
				}
				if prev, ok := visited[k]; ok && prev >= rem {
					return true
				}
				visited[k] = rem
				return false
			}
		}
		_ = used
		var out Outcome
		// run
		s := runWith(it.prefix, visit, &ptsSoFar, body)
		out = s
		st.Executions++
		st.Steps += out.Steps
		if len(out.Points) > st.MaxPoints {
			st.MaxPoints = len(out.Points)
		}
		if out.Pruned {
			st.Pruned++
		} else {
			if out.Deadlock {
				st.Deadlocks++
			}
			if msg := check(out); msg != "" {
				ch := make([]int, len(out.Points))
				for i, p := range out.Points {
					ch[i] = p.Chosen
				}
				st.States = len(visited)
				return st, ch, msg
			}
		}
		// push alternatives
		pre := 0
		for i, p := range out.Points {
			if i >= len(it.prefix) {
				for alt := len(p.Enabled) - 1; alt >= 1; alt-- {
					cost := pre
					if !p.Choice && p.RunEn {
						cost++
					}
					if bound >= 0 && cost > bound {
						continue
					}
					np := make([]int, i+1)
					for j := 0; j < i; j++ {
						np[j] = out.Points[j].Chosen
					}
					np[i] = alt
					stack = append(stack, item{np})
				}
			}
			if !p.Choice && p.RunEn && p.Chosen != 0 {
				pre++
			}
		}
	}
	st.States = len(visited)
	return st, nil, ""
}

func runWith(prefix []int, visit func(uint64, int) bool, pts **[]Point, body func()) Outcome {
	s := &Sched{toSched: make(chan *Thread), prefix: prefix, visit: visit, maxSteps: 100000}
	*pts = &s.out.Points
	return s.run(body)
}
