package vsched

import (
	"fmt"
	"io"
	"sort"
	"strings"
	"time"
)

// Stats of one exploration.
type Stats struct {
	Executions  int   // complete executions (not cut)
	Cut         int   // executions cut by state caching
	States      int   // distinct happens-before state keys seen at switch points
	Steps       int64 // scheduler steps (transitions)
	MaxPoints   int
	MaxThreads  int
	Deadlocks   int
	Leaks       int
	Bound       int  // preemption bound explored completely (-1 = unbounded)
	Exhaustive  bool // false if a cap (executions, deadline) stopped the search
	Outcomes    map[string]int
	KnownHits   map[string]int
	Preemptions int // maximal number of preemptions in an explored execution
}

// Failure is a violating execution.
type Failure struct {
	Sig     string
	Msg     string
	Choices []int
}

// Scenario is one closed system: Body builds everything it needs, runs as the main thread and
// leaves its observations where Check can see them. Check runs after the execution (outside
// the scheduler) and returns a signature ("" = fine), a message and an outcome label used to
// count distinct observed outcomes.
type Scenario struct {
	Name     string
	Bound    int // preemption bound, <0 unbounded
	MaxExec  int // 0 = no cap
	Body     func()
	Check    func(o *Outcome) (sig, msg, outcome string)
	Known    func(sig string) bool // listed open finding: count it, treat as a leaf, keep searching
	NoCache  bool
	Deadline time.Time
}

// StdVerdict turns the runtime's own verdicts into a signature.
func StdVerdict(o *Outcome) (sig, msg string) {
	switch {
	case o.Panic != nil:
		return "panic:" + o.PanicSite + ":" + panicClass(fmt.Sprint(o.Panic)), fmt.Sprintf("panic: %v\n%s", o.Panic, trimStack(o.PanicStk))
	case o.Deadlock:
		return "deadlock:" + strings.Join(uniq(o.Blocked), "|"), "deadlock; blocked threads: " + strings.Join(o.Blocked, ", ")
	case o.Livelock:
		return "livelock:" + strings.Join(uniq(o.Blocked), "|"), "step horizon exceeded; parked threads: " + strings.Join(o.Blocked, ", ")
	case o.Leaked:
		return "leak:" + strings.Join(uniq(o.Blocked), "|"), "goroutines still blocked after the main thread finished: " + strings.Join(o.Blocked, ", ")
	}
	return "", ""
}

func uniq(s []string) []string {
	var r []string
	for _, x := range s {
		if len(r) == 0 || r[len(r)-1] != x {
			r = append(r, x)
		}
	}
	return r
}

func panicClass(m string) string {
	// drop numbers so that "index out of range [5] with length 3" is one class
	var sb strings.Builder
	for _, r := range m {
		if r >= '0' && r <= '9' {
			continue
		}
		if r == ' ' {
			r = '_'
		}
		sb.WriteRune(r)
	}
	s := sb.String()
	if len(s) > 60 {
		s = s[:60]
	}
	return s
}

func trimStack(s string) string {
	lines := strings.Split(s, "\n")
	var keep []string
	for i := 0; i+1 < len(lines); i++ {
		if strings.Contains(lines[i], "github.com/biogo/hts") && !strings.Contains(lines[i], "/vsched") {
			keep = append(keep, "  "+strings.TrimSpace(lines[i])+" @ "+strings.TrimSpace(lines[i+1]))
			if len(keep) >= 10 {
				break
			}
		}
	}
	return strings.Join(keep, "\n")
}

// Replay runs the scenario once with the given choices.
func Replay(sc *Scenario, choices []int) (Outcome, string) {
	return Run(Config{Prefix: choices, Trace: ReplayTrace}, sc.Body)
}

// ReplayTrace, if set, receives the scheduled operations of replayed executions.
var ReplayTrace io.Writer

// Explore runs the scenario under every schedule with at most Bound preemptions.
// It stops at the first failure whose signature is not a known finding.
func Explore(sc *Scenario) (Stats, *Failure, error) {
	st := Stats{Outcomes: map[string]int{}, KnownHits: map[string]int{}, Bound: sc.Bound, Exhaustive: true}
	// determinism guard: the default schedule twice
	o1, d1 := Run(Config{}, sc.Body)
	_, _, out1 := sc.Check(&o1)
	o2, d2 := Run(Config{}, sc.Body)
	_, _, out2 := sc.Check(&o2)
	if d1 != "" || d2 != "" || o1.Final != o2.Final || out1 != out2 || len(o1.Points) != len(o2.Points) {
		return st, nil, fmt.Errorf("scenario %s is not deterministic under a fixed schedule (final %x vs %x, outcome %q vs %q)", sc.Name, o1.Final, o2.Final, out1, out2)
	}
	visited := map[uint64]int{}
	// A stack entry is "the first i choices of base, then alt": prefixes are materialised when
	// popped, so an execution with many choice points (one that runs into the step horizon has
	// 10^5 of them) costs one shared slice, not a copy per alternative.
	type frame struct {
		base   []int
		i, alt int
	}
	stack := []frame{{}}
	first := true
	for len(stack) > 0 {
		fr := stack[len(stack)-1]
		stack = stack[:len(stack)-1]
		var prefix []int
		if first {
			first = false
		} else {
			prefix = make([]int, fr.i+1)
			copy(prefix, fr.base[:fr.i])
			prefix[fr.i] = fr.alt
		}
		if sc.MaxExec > 0 && st.Executions+st.Cut >= sc.MaxExec {
			st.Exhaustive = false
			break
		}
		if !sc.Deadline.IsZero() && (st.Executions+st.Cut)%64 == 0 && time.Now().After(sc.Deadline) {
			st.Exhaustive = false
			break
		}
		var visit func(uint64, int) bool
		if !sc.NoCache {
			visit = func(k uint64, pre int) bool {
				rem := 1 << 30
				if sc.Bound >= 0 {
					rem = sc.Bound - pre
				}
				if prev, ok := visited[k]; ok && prev >= rem {
					return true
				}
				visited[k] = rem
				return false
			}
		}
		out, div := Run(Config{Prefix: prefix, Visit: visit}, sc.Body)
		if div != "" {
			return st, nil, fmt.Errorf("scenario %s: %s", sc.Name, div)
		}
		st.Steps += int64(out.Steps)
		if len(out.Points) > st.MaxPoints {
			st.MaxPoints = len(out.Points)
		}
		if out.Threads > st.MaxThreads {
			st.MaxThreads = out.Threads
		}
		if out.Pruned {
			st.Cut++
		} else {
			st.Executions++
			if out.Deadlock {
				st.Deadlocks++
			}
			if out.Leaked {
				st.Leaks++
			}
			sig, msg, label := sc.Check(&out)
			st.Outcomes[label]++
			if sig != "" {
				if sc.Known != nil && sc.Known(sig) {
					st.KnownHits[sig]++
				} else {
					st.States = len(visited)
					f := &Failure{Sig: sig, Msg: msg, Choices: out.Choices()}
					// a failure is believed only if it replays identically five times
					for i := 0; i < 5; i++ {
						ro, rd := Run(Config{Prefix: f.Choices}, sc.Body)
						rsig, _, _ := sc.Check(&ro)
						if rd != "" || rsig != sig || ro.Final != out.Final {
							return st, nil, fmt.Errorf("scenario %s: failure %q does not replay deterministically (got %q, %s)", sc.Name, sig, rsig, rd)
						}
					}
					return st, f, nil
				}
			}
		}
		// push the alternatives of every point beyond the prefix (deepest last = DFS)
		pre := 0
		chosen := make([]int, len(out.Points))
		for i, p := range out.Points {
			chosen[i] = p.Chosen
		}
		for i, p := range out.Points {
			if i >= len(prefix) {
				cost := pre
				if !p.Choice && p.RunEn {
					cost++
				}
				if sc.Bound < 0 || cost <= sc.Bound {
					for alt := p.N - 1; alt >= 1; alt-- {
						stack = append(stack, frame{chosen, i, alt})
					}
				}
			}
			if !p.Choice && p.RunEn && p.Chosen != 0 {
				pre++
			}
		}
		if pre > st.Preemptions {
			st.Preemptions = pre
		}
	}
	st.States = len(visited)
	return st, nil, nil
}

// OutcomeList renders the outcome histogram deterministically.
func (st *Stats) OutcomeList() []string {
	var r []string
	for k, v := range st.Outcomes {
		r = append(r, fmt.Sprintf("%s x%d", k, v))
	}
	sort.Strings(r)
	return r
}
