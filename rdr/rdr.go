// Package rdr holds the flat-stream reference model of a bgzf.Reader (C02/C03/C09/C13), the
// files it is exercised on (built by the independent BGZF encoder in refimpl) and the driver
// that applies one operation to a real Reader and compares the observation with the model.
// It is compiled both against the plain library (vseq) and the instrumented one (vconc).
package rdr

import (
	"bytes"
	"fmt"
	"io"
	"strings"

	"github.com/biogo/hts/bgzf"
	"github.com/biogo/hts/bgzf/cache"

	"verif/refimpl"
)

// File is a BGZF file with known block structure.
type File struct {
	Name   string
	Data   []byte
	Blocks [][]byte // payload of each data block (may be empty)
	Bases  []int64  // Bases[i] = file offset of block i; Bases[len(Blocks)] = offset after the last data block
	Marker bool
	Start  []int // Start[i] = flat offset of block i's first byte; Start[len(Blocks)] = total
	Flat   []byte
}

// MakeFile builds a file whose blocks have the given lengths; byte values identify their
// flat position (mod 251) so that any misplaced byte is visible.
func MakeFile(name string, lens []int, marker bool) *File {
	f := &File{Name: name, Marker: marker}
	pos := 0
	for _, l := range lens {
		b := make([]byte, l)
		for i := range b {
			b[i] = byte((pos+i)%251) + 1
		}
		f.Blocks = append(f.Blocks, b)
		f.Start = append(f.Start, pos)
		f.Flat = append(f.Flat, b...)
		pos += l
	}
	f.Start = append(f.Start, pos)
	level := 1
	f.Data, f.Bases = refimpl.EncodeFile(f.Blocks, level, marker)
	return f
}

// NBlocks counts seekable members: the data blocks plus the EOF marker if present.
func (f *File) NBlocks() int {
	if f.Marker {
		return len(f.Blocks) + 1
	}
	return len(f.Blocks)
}

func (f *File) blockLen(b int) int {
	if b < len(f.Blocks) {
		return len(f.Blocks[b])
	}
	return 0
}

// FlatOf translates a virtual offset to a flat position, or -1.
func (f *File) FlatOf(o bgzf.Offset) int {
	for i := range f.Blocks {
		if f.Bases[i] == o.File {
			if int(o.Block) > len(f.Blocks[i]) {
				return -1
			}
			return f.Start[i] + int(o.Block)
		}
	}
	// the member after the last data block (the EOF marker, or the end of the file) and the
	// end of the file itself
	if (o.File == f.Bases[len(f.Blocks)] || o.File == int64(len(f.Data))) && o.Block == 0 {
		return len(f.Flat)
	}
	return -1
}

// Op is one operation of a reader history.
type Op struct {
	Op    string `json:"op"` // Seek Read ReadByte Blocked SetCache
	Blk   int    `json:"blk,omitempty"`
	Off   int    `json:"off,omitempty"`
	N     int    `json:"n,omitempty"`
	On    bool   `json:"on,omitempty"`
	Cache string `json:"cache,omitempty"` // "", "LRU", "FIFO", "Random", "Stats(LRU)", ...
	Cap   int    `json:"cap,omitempty"`
}

func (o Op) String() string {
	switch o.Op {
	case "Seek":
		return fmt.Sprintf("Seek(b%d,%d)", o.Blk, o.Off)
	case "Read":
		return fmt.Sprintf("Read(%d)", o.N)
	case "Blocked":
		return fmt.Sprintf("Blocked=%v", o.On)
	case "SetCache":
		if o.Cache == "" {
			return "SetCache(nil)"
		}
		return fmt.Sprintf("SetCache(%s(%d))", o.Cache, o.Cap)
	}
	return o.Op
}

func OpsString(ops []Op) string {
	var s []string
	for _, o := range ops {
		s = append(s, o.String())
	}
	return strings.Join(s, "; ")
}

// NewCache builds one of the provided caches.
func NewCache(kind string, n int) bgzf.Cache {
	inner := strings.TrimSuffix(strings.TrimPrefix(kind, "Stats("), ")")
	var c cache.Cache
	switch inner {
	case "LRU":
		c = cache.NewLRU(n)
	case "FIFO":
		c = cache.NewFIFO(n)
	case "Random":
		c = cache.NewRandom(n)
	default:
		return nil
	}
	if strings.HasPrefix(kind, "Stats(") {
		return &cache.StatsRecorder{Cache: c}
	}
	return c
}

// Model is the flat model: a cursor (block, offset) — the block matters only in Blocked mode —
// and the sticky end-of-data condition.
type Model struct {
	F       *File
	Blk     int // current block index (len(Blocks) = past the data / on the marker)
	Off     int
	Blocked bool
	EOF     bool // sticky io.EOF reported; cleared by Seek
}

func NewModel(f *File) *Model { return &Model{F: f} }

func (m *Model) flat() int {
	if m.Blk >= len(m.F.Blocks) {
		return len(m.F.Flat)
	}
	return m.F.Start[m.Blk] + m.Off
}

func (m *Model) Key() string {
	// in unblocked mode only the flat position matters
	if m.Blocked {
		return fmt.Sprintf("b%d+%d blocked eof=%v", m.Blk, m.Off, m.EOF)
	}
	return fmt.Sprintf("p%d eof=%v", m.flat(), m.EOF)
}

// Expect is what the model says an operation returns.
type Expect struct {
	Data     []byte
	EOF      bool // io.EOF must be reported
	MaybeEOF bool // io.EOF or nil are both acceptable (full read ending exactly at the end of data)
	Begin    int  // flat position before the bytes returned
	End      int
	HasChunk bool // LastChunk must translate to [Begin,End]
}

// skipEmpty advances over exhausted and empty blocks, as a read does before it starts.
func (m *Model) skipEmpty() {
	for m.Blk < len(m.F.Blocks) && m.Off >= len(m.F.Blocks[m.Blk]) {
		m.Blk++
		m.Off = 0
	}
}

// Apply advances the model by op and returns the expectation.
func (m *Model) Apply(op Op) Expect {
	switch op.Op {
	case "Seek":
		m.Blk, m.Off, m.EOF = op.Blk, op.Off, false
		p := m.flat()
		if op.Blk >= len(m.F.Blocks) {
			p = len(m.F.Flat)
		}
		return Expect{Begin: p, End: p, HasChunk: true}
	case "Blocked":
		m.Blocked = op.On
		return Expect{}
	case "SetCache":
		return Expect{}
	case "Read", "ReadByte":
		n := op.N
		if op.Op == "ReadByte" {
			n = 1
		}
		if m.EOF {
			return Expect{EOF: true}
		}
		m.skipEmpty()
		if m.Blk >= len(m.F.Blocks) {
			m.EOF = true
			return Expect{EOF: true}
		}
		begin := m.flat()
		var data []byte
		e := Expect{}
		if m.Blocked {
			blk := m.F.Blocks[m.Blk]
			k := n
			if k > len(blk)-m.Off {
				k = len(blk) - m.Off
			}
			data = blk[m.Off : m.Off+k]
			m.Off += k
			if k < n {
				e.EOF = true // end of block: not sticky
			}
		} else {
			k := n
			if k > len(m.F.Flat)-begin {
				k = len(m.F.Flat) - begin
			}
			data = m.F.Flat[begin : begin+k]
			// advance the cursor
			rem := k
			for rem > 0 {
				avail := len(m.F.Blocks[m.Blk]) - m.Off
				if rem < avail {
					m.Off += rem
					rem = 0
				} else {
					rem -= avail
					m.Blk++
					m.Off = 0
				}
			}
			if k < n {
				e.EOF = true
				m.EOF = true
			} else if begin+k == len(m.F.Flat) && n > 0 {
				e.MaybeEOF = true
			}
		}
		e.Data = data
		e.Begin, e.End = begin, begin+len(data)
		if len(data) > 0 || (!e.EOF && n > 0) {
			e.HasChunk = true
		}
		return e
	}
	panic("rdr: bad op " + op.Op)
}

// Obs is what the real reader did.
type Obs struct {
	Data     []byte
	Err      error
	Chunk    bgzf.Chunk
	BlockLen int
}

// Do applies op to r.
func Do(f *File, r *bgzf.Reader, op Op) Obs {
	var o Obs
	switch op.Op {
	case "Seek":
		var base int64
		if op.Blk < len(f.Bases) {
			base = f.Bases[op.Blk]
		}
		o.Err = r.Seek(bgzf.Offset{File: base, Block: uint16(op.Off)})
	case "Read":
		buf := make([]byte, op.N)
		n, err := r.Read(buf)
		o.Data, o.Err = buf[:n], err
	case "ReadByte":
		b, err := r.ReadByte()
		if err == nil || err == io.EOF {
			// in Blocked mode the last byte of a block may come with io.EOF
			o.Data = []byte{b}
		}
		o.Err = err
	case "Blocked":
		r.Blocked = op.On
	case "SetCache":
		r.SetCache(NewCache(op.Cache, op.Cap))
	}
	o.Chunk = r.LastChunk()
	return o
}

// Compare checks an observation against the model's expectation; sig is "" if they agree.
func Compare(f *File, op Op, e Expect, o Obs) (sig, msg string) {
	switch op.Op {
	case "Blocked", "SetCache":
		return "", ""
	case "Seek":
		if o.Err != nil {
			return "seek-error", fmt.Sprintf("%s returned %v", op, o.Err)
		}
	case "Read", "ReadByte":
		data := o.Data
		if op.Op == "ReadByte" && o.Err != nil && !(e.EOF && len(e.Data) == 1) {
			// a failed ReadByte returns no byte
			if o.Err == io.EOF && len(e.Data) == 1 && !e.EOF && !e.MaybeEOF {
				return "readbyte-eof-with-data", fmt.Sprintf("%s reported io.EOF where byte %#x was available", op, e.Data[0])
			}
			if len(e.Data) == 0 {
				data = nil
			}
		}
		if o.Err != nil && o.Err != io.EOF {
			return "read-error", fmt.Sprintf("%s returned error %v (expected %d bytes, eof=%v)", op, o.Err, len(e.Data), e.EOF)
		}
		if op.Op == "ReadByte" && len(e.Data) == 0 {
			// nothing to return: the byte value is meaningless, only the error matters
			if o.Err != io.EOF {
				return "missing-eof", fmt.Sprintf("%s at the end of the data returned err=%v", op, o.Err)
			}
			return "", ""
		}
		if !bytes.Equal(data, e.Data) {
			return "wrong-bytes", fmt.Sprintf("%s returned %d bytes %s, the flat copy holds %d bytes %s at [%d,%d)", op, len(data), short(data), len(e.Data), short(e.Data), e.Begin, e.End)
		}
		switch {
		case e.EOF && o.Err != io.EOF:
			return "missing-eof", fmt.Sprintf("%s returned %d of %d bytes without io.EOF", op, len(data), op.N)
		case !e.EOF && !e.MaybeEOF && o.Err == io.EOF:
			return "early-eof", fmt.Sprintf("%s reported io.EOF although the read was complete and data remains", op)
		}
	}
	if e.HasChunk {
		b, en := f.FlatOf(o.Chunk.Begin), f.FlatOf(o.Chunk.End)
		if b != e.Begin || en != e.End {
			return "lastchunk", fmt.Sprintf("after %s LastChunk=%v translates to flat [%d,%d), the bytes returned are flat [%d,%d)", op, o.Chunk, b, en, e.Begin, e.End)
		}
	}
	return "", ""
}

func short(b []byte) string {
	if len(b) > 12 {
		return fmt.Sprintf("%v...", b[:12])
	}
	return fmt.Sprint(b)
}
