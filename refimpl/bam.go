package refimpl

import (
	"encoding/binary"
	"fmt"
	"math"
	"strconv"
	"strings"
)

// BAM and SAM record encoding written from SAM v1 (sections 1.4, 1.5, 4.2), independent of the
// library. Records are described by neutral structs.

// AuxField is one optional field. Type is the BAM value type: A c C s S i I f Z H B.
type AuxField struct {
	Tag   string
	Type  byte
	Int   int64     // A (as a character code), c C s S i I
	Float float32   // f
	Str   string    // Z, H
	Sub   byte      // B: element type c C s S i I f
	Ints  []int64   // B integer arrays
	Flts  []float32 // B float arrays
}

// Rec is one alignment record.
type Rec struct {
	Name      string
	RefID     int // -1 = none
	Pos       int // 0-based, -1 = none
	MapQ      int
	Flags     int
	MateRefID int
	MatePos   int
	TLen      int
	Cigar     []uint32 // oplen<<4 | op, op index into "MIDNSHP=XB"
	Seq       string   // base characters from "=ACMGRSVTWYHKDBN"
	Qual      []byte   // phred values; nil = absent
	Aux       []AuxField
}

// RefInfo is a reference sequence of the header.
type RefInfo struct {
	Name string
	Len  int
}

const seqAlphabet = "=ACMGRSVTWYHKDBN"
const cigarLetters = "MIDNSHP=XB"

func refEnd(r *Rec) int {
	if r.Flags&0x4 != 0 || len(r.Cigar) == 0 {
		return r.Pos + 1
	}
	p, end := r.Pos, r.Pos
	for _, c := range r.Cigar {
		switch cigarLetters[c&0xf] {
		case 'M', 'D', 'N', '=', 'X':
			p += int(c >> 4)
		case 'B':
			p -= int(c >> 4)
		}
		if p > end {
			end = p
		}
	}
	return end
}

// BAMAux encodes optional fields.
func BAMAux(fs []AuxField) []byte {
	var b []byte
	le16 := func(v uint16) { b = append(b, byte(v), byte(v>>8)) }
	le32 := func(v uint32) { b = append(b, byte(v), byte(v>>8), byte(v>>16), byte(v>>24)) }
	putInt := func(t byte, v int64) {
		switch t {
		case 'A', 'c', 'C':
			b = append(b, byte(v))
		case 's', 'S':
			le16(uint16(v))
		case 'i', 'I':
			le32(uint32(v))
		}
	}
	for _, f := range fs {
		b = append(b, f.Tag[0], f.Tag[1], f.Type)
		switch f.Type {
		case 'A', 'c', 'C', 's', 'S', 'i', 'I':
			putInt(f.Type, f.Int)
		case 'f':
			le32(math.Float32bits(f.Float))
		case 'Z', 'H':
			b = append(b, f.Str...)
			b = append(b, 0)
		case 'B':
			b = append(b, f.Sub)
			if f.Sub == 'f' {
				le32(uint32(len(f.Flts)))
				for _, x := range f.Flts {
					le32(math.Float32bits(x))
				}
			} else {
				le32(uint32(len(f.Ints)))
				for _, x := range f.Ints {
					putInt(f.Sub, x)
				}
			}
		}
	}
	return b
}

// BAMRecord encodes one record including its block_size prefix. The bin field is computed
// with Reg2bin (callers comparing with other encoders may mask bytes 14..15).
func BAMRecord(r *Rec) []byte {
	var b []byte
	le16 := func(v uint16) { b = append(b, byte(v), byte(v>>8)) }
	le32 := func(v uint32) { b = append(b, byte(v), byte(v>>8), byte(v>>16), byte(v>>24)) }
	le32(0) // block_size, patched below
	le32(uint32(int32(r.RefID)))
	le32(uint32(int32(r.Pos)))
	b = append(b, byte(len(r.Name)+1), byte(r.MapQ))
	bin := 4680
	if r.Pos >= 0 {
		bin = Reg2bin(r.Pos, refEnd(r))
	}
	le16(uint16(bin))
	le16(uint16(len(r.Cigar)))
	le16(uint16(r.Flags))
	le32(uint32(len(r.Seq)))
	le32(uint32(int32(r.MateRefID)))
	le32(uint32(int32(r.MatePos)))
	le32(uint32(int32(r.TLen)))
	b = append(b, r.Name...)
	b = append(b, 0)
	for _, c := range r.Cigar {
		le32(c)
	}
	for i := 0; i < len(r.Seq); i += 2 {
		hi := strings.IndexByte(seqAlphabet, r.Seq[i])
		lo := 0
		if i+1 < len(r.Seq) {
			lo = strings.IndexByte(seqAlphabet, r.Seq[i+1])
		}
		b = append(b, byte(hi<<4|lo))
	}
	if r.Qual == nil {
		for range r.Seq {
			b = append(b, 0xff)
		}
	} else {
		b = append(b, r.Qual...)
	}
	b = append(b, BAMAux(r.Aux)...)
	binary.LittleEndian.PutUint32(b, uint32(len(b)-4))
	return b
}

// BAMHeader encodes the BAM header block for the given header text and references.
func BAMHeader(text string, refs []RefInfo) []byte {
	b := []byte("BAM\x01")
	le32 := func(v uint32) { b = append(b, byte(v), byte(v>>8), byte(v>>16), byte(v>>24)) }
	le32(uint32(len(text)))
	b = append(b, text...)
	le32(uint32(len(refs)))
	for _, r := range refs {
		le32(uint32(len(r.Name) + 1))
		b = append(b, r.Name...)
		b = append(b, 0)
		le32(uint32(r.Len))
	}
	return b
}

// CigarString formats a CIGAR.
func CigarString(c []uint32) string {
	if len(c) == 0 {
		return "*"
	}
	var sb strings.Builder
	for _, o := range c {
		sb.WriteString(strconv.Itoa(int(o >> 4)))
		sb.WriteByte(cigarLetters[o&0xf])
	}
	return sb.String()
}

func fmtFloat(f float32) string {
	return strconv.FormatFloat(float64(f), 'g', -1, 32)
}

// SAMAux formats one optional field as TAG:TYPE:VALUE (SAM v1 section 1.5): integer BAM types
// are all written as type i.
func SAMAux(f AuxField) string {
	switch f.Type {
	case 'A':
		return fmt.Sprintf("%s:A:%c", f.Tag, byte(f.Int))
	case 'c', 'C', 's', 'S', 'i', 'I':
		return fmt.Sprintf("%s:i:%d", f.Tag, f.Int)
	case 'f':
		return fmt.Sprintf("%s:f:%s", f.Tag, fmtFloat(f.Float))
	case 'Z':
		return fmt.Sprintf("%s:Z:%s", f.Tag, f.Str)
	case 'H':
		return fmt.Sprintf("%s:H:%s", f.Tag, f.Str)
	case 'B':
		var sb strings.Builder
		fmt.Fprintf(&sb, "%s:B:%c", f.Tag, f.Sub)
		if f.Sub == 'f' {
			for _, x := range f.Flts {
				sb.WriteString("," + fmtFloat(x))
			}
		} else {
			for _, x := range f.Ints {
				sb.WriteString("," + strconv.FormatInt(x, 10))
			}
		}
		return sb.String()
	}
	return ""
}

// SAMLine formats a record as a SAM alignment line (without newline). flagFmt: 'd' decimal,
// 'x' hexadecimal (0x...).
func SAMLine(r *Rec, refs []RefInfo, flagFmt byte) string {
	name := func(id int) string {
		if id < 0 || id >= len(refs) {
			return "*"
		}
		return refs[id].Name
	}
	rnext := name(r.MateRefID)
	if r.MateRefID >= 0 && r.MateRefID == r.RefID {
		rnext = "="
	}
	flags := strconv.Itoa(r.Flags)
	if flagFmt == 'x' {
		flags = "0x" + strconv.FormatInt(int64(r.Flags), 16)
	}
	seq := r.Seq
	if seq == "" {
		seq = "*"
	}
	qual := "*"
	if r.Qual != nil && len(r.Qual) > 0 {
		q := make([]byte, len(r.Qual))
		for i, x := range r.Qual {
			q[i] = x + 33
		}
		qual = string(q)
	}
	fields := []string{r.Name, flags, name(r.RefID), strconv.Itoa(r.Pos + 1), strconv.Itoa(r.MapQ), CigarString(r.Cigar), rnext,
		strconv.Itoa(r.MatePos + 1), strconv.Itoa(r.TLen), seq, qual}
	for _, a := range r.Aux {
		fields = append(fields, SAMAux(a))
	}
	return strings.Join(fields, "\t")
}
