package refimpl

import (
	"bytes"
	"compress/flate"
	"encoding/binary"
	"errors"
	"fmt"
	"hash/crc32"
	"io"
)

// BGZF framing, written from RFC 1952 and SAM v1 §4.1. Only compress/flate (the DEFLATE codec)
// is taken from the standard library; the gzip member framing is parsed by hand so that it is
// independent of both the library under test and compress/gzip.

// EOFMarker is the 28-byte empty BGZF block of SAM v1 §4.1.2.
var EOFMarker = []byte{0x1f, 0x8b, 0x08, 0x04, 0, 0, 0, 0, 0, 0xff, 0x06, 0, 0x42, 0x43, 0x02, 0, 0x1b, 0, 0x03, 0, 0, 0, 0, 0, 0, 0, 0, 0}

const (
	MaxMember   = 65536 // a member is at most 2^16 bytes (BSIZE is 16 bits)
	MaxPayload  = 65280 // what a writer puts into one member (the library's BlockSize)
	MaxInflated = 65536 // what a member may inflate to (SAM v1 §4.1: at most 2^16 bytes)
)

// Member is one parsed gzip member of a BGZF stream.
type Member struct {
	Off     int64 // offset of the member in the stream
	Size    int   // total member length (BSIZE+1)
	Payload []byte
	FLG     byte
	MTIME   uint32
	XFL, OS byte
	Extra   []byte // whole FEXTRA field
	Name    string
	Comment string
}

var ErrPartial = errors.New("refimpl: stream ends inside a member")

// ParseMember parses the member at the start of b.
func ParseMember(b []byte) (*Member, error) {
	if len(b) < 12 {
		return nil, ErrPartial
	}
	if b[0] != 0x1f || b[1] != 0x8b {
		return nil, fmt.Errorf("bad gzip magic % x", b[:2])
	}
	if b[2] != 8 {
		return nil, fmt.Errorf("compression method %d", b[2])
	}
	m := &Member{FLG: b[3], MTIME: binary.LittleEndian.Uint32(b[4:8]), XFL: b[8], OS: b[9]}
	if m.FLG&0x04 == 0 {
		return nil, errors.New("FLG.FEXTRA not set")
	}
	if m.FLG&0xe0 != 0 {
		return nil, errors.New("reserved FLG bits set")
	}
	xlen := int(binary.LittleEndian.Uint16(b[10:12]))
	p := 12
	if len(b) < p+xlen {
		return nil, ErrPartial
	}
	m.Extra = b[p : p+xlen]
	bsize := -1
	for x := m.Extra; len(x) > 0; {
		if len(x) < 4 {
			return nil, errors.New("malformed extra subfield")
		}
		sl := int(binary.LittleEndian.Uint16(x[2:4]))
		if len(x) < 4+sl {
			return nil, errors.New("extra subfield overruns XLEN")
		}
		if x[0] == 'B' && x[1] == 'C' {
			if sl != 2 {
				return nil, fmt.Errorf("BC subfield length %d", sl)
			}
			if bsize >= 0 {
				return nil, errors.New("duplicate BC subfield")
			}
			bsize = int(binary.LittleEndian.Uint16(x[4:6]))
		}
		x = x[4+sl:]
	}
	if bsize < 0 {
		return nil, errors.New("no BC subfield")
	}
	p += xlen
	m.Size = bsize + 1
	if m.Size > MaxMember {
		return nil, fmt.Errorf("member of %d bytes", m.Size)
	}
	if m.Size < p+8 {
		return nil, fmt.Errorf("BSIZE %d is smaller than the member's own header and trailer", bsize)
	}
	if len(b) < m.Size {
		return nil, ErrPartial
	}
	b = b[:m.Size]
	readz := func() (string, error) {
		i := bytes.IndexByte(b[p:], 0)
		if i < 0 {
			return "", errors.New("unterminated header string")
		}
		s := string(b[p : p+i])
		p += i + 1
		return s, nil
	}
	var err error
	if m.FLG&0x08 != 0 {
		if m.Name, err = readz(); err != nil {
			return nil, err
		}
	}
	if m.FLG&0x10 != 0 {
		if m.Comment, err = readz(); err != nil {
			return nil, err
		}
	}
	if m.FLG&0x02 != 0 {
		p += 2
	}
	if p+8 > len(b) {
		return nil, errors.New("member too short for its header and trailer")
	}
	fr := flate.NewReader(bytes.NewReader(b[p : len(b)-8]))
	payload, err := io.ReadAll(io.LimitReader(fr, MaxInflated+1))
	if err != nil {
		return nil, fmt.Errorf("deflate: %v", err)
	}
	if len(payload) > MaxInflated {
		return nil, fmt.Errorf("payload larger than %d", MaxInflated)
	}
	// the deflate stream must end exactly at the trailer
	if n, _ := fr.Read(make([]byte, 1)); n != 0 {
		return nil, errors.New("trailing deflate data")
	}
	crc := binary.LittleEndian.Uint32(b[len(b)-8:])
	isize := binary.LittleEndian.Uint32(b[len(b)-4:])
	if crc != crc32.ChecksumIEEE(payload) {
		return nil, errors.New("CRC32 mismatch")
	}
	if isize != uint32(len(payload)) {
		return nil, errors.New("ISIZE mismatch")
	}
	m.Payload = payload
	return m, nil
}

// ParseStream parses b as a concatenation of BGZF members. partial reports that the stream
// ends inside a member (members then holds the complete ones before it).
func ParseStream(b []byte) (members []*Member, partial bool, err error) {
	off := 0
	for off < len(b) {
		m, e := ParseMember(b[off:])
		if e == ErrPartial {
			return members, true, nil
		}
		if e != nil {
			return members, false, fmt.Errorf("member at offset %d: %v", off, e)
		}
		m.Off = int64(off)
		members = append(members, m)
		off += m.Size
	}
	return members, false, nil
}

// Payloads concatenates the members' payloads.
func Payloads(ms []*Member) []byte {
	var out []byte
	for _, m := range ms {
		out = append(out, m.Payload...)
	}
	return out
}

// HasMarker reports whether b ends with the EOF marker.
func HasMarker(b []byte) bool { return bytes.HasSuffix(b, EOFMarker) }

// EncodeBlock builds one BGZF member holding payload (len <= MaxPayload), independent of the
// library's writer. level 0 stores, otherwise DEFLATE level.
func EncodeBlock(payload []byte, level int) []byte {
	var def bytes.Buffer
	fw, _ := flate.NewWriter(&def, level)
	fw.Write(payload)
	fw.Close()
	out := []byte{0x1f, 0x8b, 8, 4, 0, 0, 0, 0, 0, 0xff, 6, 0, 'B', 'C', 2, 0, 0, 0}
	out = append(out, def.Bytes()...)
	var tr [8]byte
	binary.LittleEndian.PutUint32(tr[0:], crc32.ChecksumIEEE(payload))
	binary.LittleEndian.PutUint32(tr[4:], uint32(len(payload)))
	out = append(out, tr[:]...)
	bs := len(out) - 1
	if bs >= MaxMember {
		panic("refimpl: block too large")
	}
	out[16], out[17] = byte(bs), byte(bs>>8)
	return out
}

// EncodeBlockExtraFirst is EncodeBlock with another (well-formed) gzip extra subfield placed
// BEFORE the BC subfield, which RFC 1952 and the BGZF definition allow.
func EncodeBlockExtraFirst(payload []byte, level int) []byte {
	m := EncodeBlock(payload, level)
	sub := []byte{'X', 'Y', 3, 0, 'B', 'C', 2} // 7 bytes; its data even starts like the BC header
	out := append([]byte(nil), m[:12]...)
	out = append(out, sub...)
	out = append(out, m[12:]...)
	xlen := 6 + len(sub)
	out[10], out[11] = byte(xlen), byte(xlen>>8)
	bs := len(out) - 1
	o := 12 + len(sub) + 4
	out[o], out[o+1] = byte(bs), byte(bs>>8)
	return out
}

// EncodeFileExtraFirst is EncodeFile with EncodeBlockExtraFirst members.
func EncodeFileExtraFirst(blocks [][]byte, level int, marker bool) (file []byte, bases []int64) {
	for _, p := range blocks {
		bases = append(bases, int64(len(file)))
		file = append(file, EncodeBlockExtraFirst(p, level)...)
	}
	bases = append(bases, int64(len(file)))
	if marker {
		file = append(file, EOFMarker...)
	}
	return file, bases
}

// EncodeFile builds a BGZF file from payload blocks, with or without the EOF marker.
func EncodeFile(blocks [][]byte, level int, marker bool) (file []byte, bases []int64) {
	for _, p := range blocks {
		bases = append(bases, int64(len(file)))
		file = append(file, EncodeBlock(p, level)...)
	}
	bases = append(bases, int64(len(file)))
	if marker {
		file = append(file, EOFMarker...)
	}
	return file, bases
}
