package refimpl

// Binning scheme arithmetic transcribed from SAM v1 §5.3 (BAI, fixed 14/5 scheme) and the CSI
// specification (CSIv1.tex, reg2bin/reg2bins with min_shift and depth).

// Reg2bin is the SAM specification's reg2bin for the half-open interval [beg,end).
func Reg2bin(beg, end int) int {
	end--
	if beg>>14 == end>>14 {
		return ((1<<15)-1)/7 + (beg >> 14)
	}
	if beg>>17 == end>>17 {
		return ((1<<12)-1)/7 + (beg >> 17)
	}
	if beg>>20 == end>>20 {
		return ((1<<9)-1)/7 + (beg >> 20)
	}
	if beg>>23 == end>>23 {
		return ((1<<6)-1)/7 + (beg >> 23)
	}
	if beg>>26 == end>>26 {
		return ((1<<3)-1)/7 + (beg >> 26)
	}
	return 0
}

// Reg2bins is the SAM specification's reg2bins.
func Reg2bins(beg, end int) []int {
	end--
	list := []int{0}
	for k := 1 + (beg >> 26); k <= 1+(end>>26); k++ {
		list = append(list, k)
	}
	for k := 9 + (beg >> 23); k <= 9+(end>>23); k++ {
		list = append(list, k)
	}
	for k := 73 + (beg >> 20); k <= 73+(end>>20); k++ {
		list = append(list, k)
	}
	for k := 585 + (beg >> 17); k <= 585+(end>>17); k++ {
		list = append(list, k)
	}
	for k := 4681 + (beg >> 14); k <= 4681+(end>>14); k++ {
		list = append(list, k)
	}
	return list
}

// CSIReg2bin is the CSI specification's reg2bin.
func CSIReg2bin(beg, end int64, minShift, depth int) int {
	s := uint(minShift)
	t := ((1 << uint(depth*3)) - 1) / 7
	end--
	for l := depth; l > 0; {
		if beg>>s == end>>s {
			return t + int(beg>>s)
		}
		l--
		s += 3
		t -= 1 << uint(l*3)
	}
	return 0
}

// CSIReg2bins is the CSI specification's reg2bins.
func CSIReg2bins(beg, end int64, minShift, depth int) []int {
	var bins []int
	s := uint(minShift + depth*3)
	end--
	t := 0
	for l := 0; l <= depth; l++ {
		b, e := t+int(beg>>s), t+int(end>>s)
		for i := b; i <= e; i++ {
			bins = append(bins, i)
		}
		s -= 3
		t += 1 << uint(l*3)
	}
	return bins
}
