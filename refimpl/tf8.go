// Package refimpl holds independent reference code written from the format specifications
// (SAM/BAM/BGZF/CRAM/FAI), never from the library. It is kept boring on purpose.
package refimpl

// ITF8 encodes v as defined in CRAM v3 §2.3: the number of leading one bits of the first byte
// (at most 4) is the number of following bytes; with 4 following bytes the first byte carries
// bits 28..31, the next three bytes bits 27..4 and the last byte bits 3..0 in its low nibble.
func ITF8(v int32) []byte {
	u := uint32(v)
	switch {
	case u < 1<<7:
		return []byte{byte(u)}
	case u < 1<<14:
		return []byte{0x80 | byte(u>>8), byte(u)}
	case u < 1<<21:
		return []byte{0xc0 | byte(u>>16), byte(u >> 8), byte(u)}
	case u < 1<<28:
		return []byte{0xe0 | byte(u>>24), byte(u >> 16), byte(u >> 8), byte(u)}
	}
	return []byte{0xf0 | byte(u>>28), byte(u >> 20), byte(u >> 12), byte(u >> 4), byte(u & 0x0f)}
}

// ITF8Len is the number of bytes announced by first byte b0.
func ITF8Len(b0 byte) int {
	n := 0
	for n < 4 && b0&(0x80>>uint(n)) != 0 {
		n++
	}
	return n + 1
}

// ITF8Decode decodes b, which must hold at least ITF8Len(b[0]) bytes.
func ITF8Decode(b []byte) int32 {
	n := ITF8Len(b[0])
	if n == 5 {
		return int32(uint32(b[0]&0x0f)<<28 | uint32(b[1])<<20 | uint32(b[2])<<12 | uint32(b[3])<<4 | uint32(b[4]&0x0f))
	}
	u := uint32(b[0]) & (0xff >> uint(n))
	for i := 1; i < n; i++ {
		u = u<<8 | uint32(b[i])
	}
	return int32(u)
}

// LTF8 encodes v: n leading one bits in the first byte announce n following bytes (0..8).
func LTF8(v int64) []byte {
	u := uint64(v)
	for n := 1; n <= 8; n++ { // total length n: 7n payload bits
		if u < uint64(1)<<uint(7*n) {
			b := make([]byte, n)
			for i := n - 1; i >= 1; i-- {
				b[i] = byte(u)
				u >>= 8
			}
			b[0] = byte(0xff<<uint(9-n)) | byte(u)
			return b
		}
	}
	b := make([]byte, 9)
	b[0] = 0xff
	for i := 8; i >= 1; i-- {
		b[i] = byte(u)
		u >>= 8
	}
	return b
}

func LTF8Len(b0 byte) int {
	n := 0
	for n < 8 && b0&(0x80>>uint(n)) != 0 {
		n++
	}
	return n + 1
}

func LTF8Decode(b []byte) int64 {
	n := LTF8Len(b[0])
	var u uint64
	if n < 8 {
		u = uint64(b[0]) & (0xff >> uint(n))
	}
	for i := 1; i < n; i++ {
		u = u<<8 | uint64(b[i])
	}
	return int64(u)
}
