#!/bin/sh
# usage: onespec.sh '<spec json>'  — instruments /repo as it is now and runs one vconc spec in-process
cd /verif; export GOFLAGS=-mod=mod GOPROXY=off GOSUMDB=off GOTOOLCHAIN=local
rm -rf .build/one; mkdir -p .build/one
bin/vinst -repo /repo -out .build/one -rt /verif/vsched -maprange github.com/biogo/hts/bgzf/cache github.com/biogo/hts/bgzf github.com/biogo/hts/bgzf/cache >/dev/null || exit 2
go build -tags verif -overlay .build/one/overlay.json -o .build/one/vconc ./cmd/vconc || exit 2
.build/one/vconc -one "$1"
