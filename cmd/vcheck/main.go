// vcheck is the driver behind ./check: it rebuilds the check binaries from /repo's current working
// tree (instrumenting bgzf for the scheduler where a part needs it), runs the parts of one
// property, merges what they report, applies known_findings.txt and writes evidence/<ID>.json.
//
// Exit status: 0 property held on everything explored (KNOWN-FINDING lines for listed open
// findings), 1 with "VIOLATION property=<id> replay=<path>" lines, 2 infrastructure error.
package main

import (
	"encoding/json"
	"fmt"
	"os"
	"os/exec"
	"path/filepath"
	"strconv"
	"strings"
	"time"

	"verif/ev"
)

type partSpec struct {
	bin  string // "vseq" (plain build of /repo) or "vconc" (instrumented build under the scheduler)
	part string
}

type propSpec struct {
	level string
	parts []partSpec
}

var plan = map[string]propSpec{
	"C01": {"model_checking", []partSpec{{"vconc", "sched"}, {"vseq", "scripts"}}},
	"C02": {"model_checking", []partSpec{{"vseq", "bfs"}, {"vconc", "sched"}}},
	"C03": {"model_checking", []partSpec{{"vseq", "bfs"}, {"vconc", "sched"}}},
	"C04": {"model_checking", []partSpec{{"vseq", "index"}}},
	"C05": {"exploration", []partSpec{{"vseq", "bam"}}},
	"C06": {"exploration", []partSpec{{"vseq", "sam"}}},
	"C07": {"model_checking", []partSpec{{"vseq", "header"}}},
	"C08": {"exploration", []partSpec{{"vseq", "framing"}, {"vconc", "sched"}}},
	"C09": {"fault_enumeration", []partSpec{{"vconc", "faults"}}},
	"C10": {"fault_enumeration", []partSpec{{"vseq", "corrupt"}}},
	"C11": {"exploration", []partSpec{{"vseq", "total"}}},
	"C12": {"model_checking", []partSpec{{"vconc", "litmus"}, {"vconc", "sched"}}},
	"C13": {"exploration", []partSpec{{"vseq", "chunks"}}},
	"C14": {"model_checking", []partSpec{{"vconc", "cache"}}},
	"C15": {"exploration", []partSpec{{"vseq", "idxrt"}}},
	"C16": {"exploration", []partSpec{{"vseq", "coord"}}},
	"C17": {"exploration", []partSpec{{"vseq", "merge"}}},
	"C18": {"exploration", []partSpec{{"vseq", "merger"}}},
	"C19": {"exploration", []partSpec{{"vseq", "fai"}}},
	"C20": {"exploration", []partSpec{{"vseq", "codec"}}},
}

const root = "/verif"

func infra(f string, a ...interface{}) {
	fmt.Fprintf(os.Stderr, "vcheck: infrastructure error: "+f+"\n", a...)
	os.Exit(2)
}

func goEnv() []string {
	env := os.Environ()
	env = append(env, "GOFLAGS=-mod=mod", "GOPROXY=off", "GOSUMDB=off", "GOTOOLCHAIN=local", "CGO_ENABLED=0")
	return env
}

func run(dir string, env []string, name string, args ...string) (string, error) {
	cmd := exec.Command(name, args...)
	cmd.Dir = dir
	cmd.Env = env
	out, err := cmd.CombinedOutput()
	return string(out), err
}

func main() {
	if len(os.Args) < 3 {
		fmt.Fprintln(os.Stderr, "usage: check <ID> quick|thorough | check <ID> --replay <path>")
		os.Exit(2)
	}
	id := os.Args[1]
	spec, ok := plan[id]
	if !ok {
		infra("unknown property %s", id)
	}
	tier := os.Args[2]
	replay := ""
	if tier == "--replay" {
		if len(os.Args) < 4 {
			infra("--replay needs a path")
		}
		replay, _ = filepath.Abs(os.Args[3])
		tier = "quick"
	} else if tier != "quick" && tier != "thorough" {
		infra("tier must be quick or thorough")
	}
	seed := 0
	if s := os.Getenv("VERIF_SEED"); s != "" {
		seed, _ = strconv.Atoi(s)
	}
	start := time.Now()
	evPath := filepath.Join(root, "evidence", id+".json")
	if replay == "" {
		os.Remove(evPath)
	}

	build := filepath.Join(root, ".build", id)
	os.RemoveAll(build)
	os.MkdirAll(build, 0o755)
	os.MkdirAll(filepath.Join(root, "evidence"), 0o755)
	os.MkdirAll(filepath.Join(root, "replays"), 0o755)

	// which binaries are needed
	need := map[string]bool{}
	var rp *replayFile
	if replay != "" {
		b, err := os.ReadFile(replay)
		if err != nil {
			infra("%v", err)
		}
		rp = &replayFile{}
		if err := json.Unmarshal(b, rp); err != nil {
			infra("replay file: %v", err)
		}
		for _, p := range spec.parts {
			if p.part == rp.Part {
				need[p.bin] = true
			}
		}
	} else {
		for _, p := range spec.parts {
			need[p.bin] = true
		}
	}
	env := goEnv()
	if need["vseq"] {
		if out, err := run(root, env, "go", "build", "-tags", "verif", "-o", filepath.Join(build, "vseq"), "./cmd/vseq"); err != nil {
			infra("building vseq against /repo failed:\n%s", out)
		}
	}
	if need["vconc"] {
		ov := filepath.Join(build, "overlay")
		if out, err := run(root, env, filepath.Join(root, "bin", "vinst"), "-repo", "/repo", "-out", ov, "-rt", filepath.Join(root, "vsched"),
			"-maprange", "github.com/biogo/hts/bgzf/cache", "github.com/biogo/hts/bgzf", "github.com/biogo/hts/bgzf/cache"); err != nil {
			infra("instrumenting /repo failed:\n%s", out)
		}
		if out, err := run(root, env, "go", "build", "-tags", "verif", "-overlay", filepath.Join(ov, "overlay.json"), "-o", filepath.Join(build, "vconc"), "./cmd/vconc"); err != nil {
			infra("building vconc against instrumented /repo failed:\n%s", out)
		}
	}

	if rp != nil {
		for _, p := range spec.parts {
			if p.part != rp.Part {
				continue
			}
			cmd := exec.Command(filepath.Join(build, p.bin), "-prop", id, "-part", p.part, "-replay", replay)
			cmd.Dir = root
			cmd.Env = env
			cmd.Stdout, cmd.Stderr = os.Stdout, os.Stderr
			err := cmd.Run()
			os.RemoveAll(build)
			if err != nil {
				if ee, ok := err.(*exec.ExitError); ok {
					os.Exit(ee.ExitCode())
				}
				infra("%v", err)
			}
			os.Exit(0)
		}
		infra("replay file names unknown part %q", rp.Part)
	}

	merged := ev.NewPart(id, "merged", tier)
	merged.SetMaxSamples(12)
	var rules []string
	partInfo := map[string]interface{}{}
	for _, p := range spec.parts {
		out := filepath.Join(build, p.part+".json")
		cmd := exec.Command(filepath.Join(build, p.bin), "-prop", id, "-part", p.part, "-tier", tier, "-seed", strconv.Itoa(seed), "-out", out)
		cmd.Dir = root
		cmd.Env = env
		cmd.Stdout, cmd.Stderr = os.Stderr, os.Stderr
		if err := cmd.Run(); err != nil {
			infra("part %s/%s did not complete: %v", id, p.part, err)
		}
		q, err := ev.ReadPart(out)
		if err != nil {
			infra("part %s/%s wrote no result: %v", id, p.part, err)
		}
		if q.Infra != "" {
			infra("part %s/%s: %s", id, p.part, q.Infra)
		}
		for _, v := range q.Violations {
			v.Sig = p.part + ":" + v.Sig
			v.Case = map[string]interface{}{"part": p.part, "case": v.Case}
		}
		rules = append(rules, "["+p.part+"] "+q.Rule)
		partInfo[p.part] = map[string]interface{}{"evaluations": q.Evaluations, "distinct_nontrivial": q.Distinct, "states": q.States,
			"transitions": q.Transitions, "exhaustive": q.Exhaustive, "wall_s": q.WallS, "extra": q.Extra}
		q.Extra = nil
		merged.Merge(q)
	}

	// thorough tier: free-running pass under the race detector for the scheduler-based parts
	// (auxiliary and sampling: it checks the data-race-freedom premise of the HB state key; it
	// is reported under assumptions and never decides the property)
	if tier == "thorough" && need["vconc"] {
		for _, p := range spec.parts {
			if p.bin != "vconc" || p.part == "litmus" {
				continue
			}
			renv := append(goEnv(), "CGO_ENABLED=1", "GORACE=halt_on_error=0 exitcode=0")
			rbin := filepath.Join(build, "vconc-race")
			if out, err := run(root, renv, "go", "build", "-race", "-tags", "verif", "-overlay", filepath.Join(build, "overlay", "overlay.json"), "-o", rbin, "./cmd/vconc"); err != nil {
				merged.Assume("race pass not run: -race build failed: " + firstLine(out))
				continue
			}
			out, _ := run(root, renv, rbin, "-prop", id, "-part", p.part, "-tier", "quick", "-racepass", "5")
			races := strings.Count(out, "WARNING: DATA RACE")
			last := ""
			for _, l := range strings.Split(strings.TrimSpace(out), "\n") {
				if strings.HasPrefix(l, "racepass ") {
					last = l
				}
			}
			merged.Assume(fmt.Sprintf("data-race freedom between synchronisation operations (premise of the happens-before state key): free-running -race pass: %s; data race reports: %d", last, races))
			if races > 0 {
				fmt.Fprintf(os.Stderr, "ASSUMPTION-FAILURE property=%s part=%s: the race detector reported %d data races in the free-running pass (see DESIGN.md 2.5)\n", id, p.part, races)
			}
		}
	}

	// known findings
	ks := ev.LoadKnown(filepath.Join(root, "known_findings.txt"))
	nviol := 0
	var lines []string
	for _, v := range merged.Violations {
		matched := false
		for _, k := range ks {
			if k.Status == "open" && k.Property == id && k.Re.MatchString(v.Sig) {
				k.Observed += v.N
				matched = true
				break
			}
		}
		if matched {
			continue
		}
		nviol++
		path := filepath.Join(root, "replays", fmt.Sprintf("%s-%d.json", id, nviol))
		c, _ := v.Case.(map[string]interface{})
		b, _ := json.MarshalIndent(map[string]interface{}{"property": id, "part": c["part"], "sig": v.Sig, "msg": v.Msg, "count": v.N, "case": c["case"]}, "", " ")
		os.WriteFile(path, b, 0o644)
		lines = append(lines, fmt.Sprintf("VIOLATION property=%s replay=%s", id, path))
		fmt.Fprintf(os.Stderr, "--- %s (%d cases)\n    %s\n", v.Sig, v.N, strings.ReplaceAll(v.Msg, "\n", "\n    "))
	}
	var knownOut []map[string]interface{}
	for _, k := range ks {
		if k.Status == "open" && k.Property == id {
			fmt.Printf("KNOWN-FINDING: property=%s %s (observed=%d)\n", id, k.What, k.Observed)
			knownOut = append(knownOut, map[string]interface{}{"match": k.Match, "what": k.What, "observed": k.Observed})
		}
	}

	cov := map[string]interface{}{
		"evaluations":         merged.Evaluations,
		"distinct_nontrivial": merged.Distinct,
		"rule":                strings.Join(rules, " || "),
		"samples":             merged.Samples,
		"exhaustive":          merged.Exhaustive,
		"parts":               partInfo,
	}
	if spec.level == "model_checking" {
		cov["states"] = merged.States
		cov["transitions"] = merged.Transitions
		cov["traces_validated_against_impl"] = merged.Traces
	} else if merged.States > 0 {
		cov["states"] = merged.States
		cov["transitions"] = merged.Transitions
	}
	if len(knownOut) > 0 {
		cov["known_findings"] = knownOut
	}
	if merged.Assumptions == nil {
		merged.Assumptions = []string{}
	}
	if merged.Samples == nil {
		merged.Samples = []interface{}{}
	}
	evd := map[string]interface{}{
		"property_id": id,
		"tier":        tier,
		"seed":        seed,
		"level":       spec.level,
		"coverage":    cov,
		"assumptions": merged.Assumptions,
		"wall_s":      time.Since(start).Seconds(),
		"violations":  nviol,
	}
	b, _ := json.MarshalIndent(evd, "", " ")
	if err := os.WriteFile(evPath, b, 0o644); err != nil {
		infra("%v", err)
	}
	os.RemoveAll(build)
	for _, l := range lines {
		fmt.Println(l)
	}
	fmt.Fprintf(os.Stderr, "%s %s: evaluations=%d distinct=%d states=%d transitions=%d exhaustive=%v violations=%d wall=%.1fs\n",
		id, tier, merged.Evaluations, merged.Distinct, merged.States, merged.Transitions, merged.Exhaustive, nviol, time.Since(start).Seconds())
	if nviol > 0 {
		os.Exit(1)
	}
}

func firstLine(s string) string {
	if i := strings.Index(s, "\n"); i >= 0 {
		return s[:i]
	}
	return s
}

type replayFile struct {
	Property string          `json:"property"`
	Part     string          `json:"part"`
	Sig      string          `json:"sig"`
	Case     json.RawMessage `json:"case"`
}
