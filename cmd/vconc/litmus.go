package main

import (
	"fmt"
	"sort"
	"strings"

	"github.com/biogo/hts/vsched"
	vsync "github.com/biogo/hts/vsched/vsync"

	"verif/ev"
)

// Litmus suite for the scheduler's model of Go's primitives: each small program is explored
// exhaustively (no preemption bound, no state caching unless stated) and the SET of observed
// outcomes must equal the set Go's semantics allow. A mismatch is an infrastructure error of
// the engine (the checks built on it cannot be trusted), never a property verdict.

type litmus struct {
	name   string
	body   func(obs *[]string)
	want   []string // allowed outcomes (complete executions), sorted
	cached bool     // also run with HB state caching: the outcome set must be the same
}

func lit() []litmus {
	return []litmus{
		{name: "buffered-channel-two-senders", want: []string{"12", "21"}, cached: true, body: func(obs *[]string) {
			ch := vsched.NewChan[int](2)
			vsched.Go(func() { ch.Send(1) })
			vsched.Go(func() { ch.Send(2) })
			a, b := ch.Recv(), ch.Recv()
			*obs = append(*obs, fmt.Sprintf("%d%d", a, b))
		}},
		{name: "unbuffered-rendezvous-publishes", want: []string{"1"}, cached: true, body: func(obs *[]string) {
			ch := vsched.NewChan[int](0)
			x := 0
			vsched.Go(func() { x = 1; ch.Send(0) })
			ch.Recv()
			*obs = append(*obs, fmt.Sprint(x))
		}},
		{name: "nil-channel-never-ready", want: []string{"default"}, body: func(obs *[]string) {
			var ch *vsched.Chan[int]
			if s := vsched.Select(true, ch.RecvCase()); s.I == -1 {
				*obs = append(*obs, "default")
			} else {
				*obs = append(*obs, "recv")
			}
		}},
		{name: "closed-channel", want: []string{"7 true|0 false|range-done"}, body: func(obs *[]string) {
			ch := vsched.NewChan[int](1)
			ch.Send(7)
			ch.Close()
			a, ok1 := ch.Recv2()
			b, ok2 := ch.Recv2()
			for {
				if _, ok := ch.Recv2(); !ok {
					break
				}
			}
			*obs = append(*obs, fmt.Sprintf("%d %v|%d %v|range-done", a, ok1, b, ok2))
		}},
		{name: "select-two-ready-cases", want: []string{"a", "b"}, body: func(obs *[]string) {
			a, b := vsched.NewChan[int](1), vsched.NewChan[int](1)
			a.Send(1)
			b.Send(2)
			switch s := vsched.Select(false, a.RecvCase(), b.RecvCase()); s.I {
			case 0:
				vsched.SelRecv(a, s)
				*obs = append(*obs, "a")
			case 1:
				vsched.SelRecv(b, s)
				*obs = append(*obs, "b")
			}
		}},
		{name: "select-default-vs-send-race", want: []string{"default", "got"}, cached: true, body: func(obs *[]string) {
			ch := vsched.NewChan[int](1)
			done := vsched.NewChan[int](1)
			vsched.Go(func() { ch.Send(1); done.Send(0) })
			s := vsched.Select(true, ch.RecvCase())
			if s.I == 0 {
				vsched.SelRecv(ch, s)
				*obs = append(*obs, "got")
			} else {
				*obs = append(*obs, "default")
			}
			done.Recv()
		}},
		{name: "mutex-excludes-writers", want: []string{"2"}, cached: true, body: func(obs *[]string) {
			var mu vsync.Mutex
			n := 0
			done := vsched.NewChan[int](2)
			for i := 0; i < 2; i++ {
				vsched.Go(func() {
					mu.Lock()
					v := n
					vsched.Yield()
					n = v + 1
					mu.Unlock()
					done.Send(0)
				})
			}
			done.Recv()
			done.Recv()
			*obs = append(*obs, fmt.Sprint(n))
		}},
		{name: "rwmutex-readers-share-writer-excluded", want: []string{"maxreaders=1 writer-alone", "maxreaders=2 writer-alone"}, cached: true, body: func(obs *[]string) {
			var mu vsync.RWMutex
			in, maxIn, bad := 0, 0, false
			done := vsched.NewChan[int](3)
			reader := func() {
				mu.RLock()
				in++
				if in > maxIn {
					maxIn = in
				}
				vsched.Yield()
				in--
				mu.RUnlock()
				done.Send(0)
			}
			vsched.Go(reader)
			vsched.Go(reader)
			vsched.Go(func() {
				mu.Lock()
				if in != 0 {
					bad = true
				}
				vsched.Yield()
				if in != 0 {
					bad = true
				}
				mu.Unlock()
				done.Send(0)
			})
			done.Recv()
			done.Recv()
			done.Recv()
			w := "writer-alone"
			if bad {
				w = "writer-with-reader"
			}
			*obs = append(*obs, fmt.Sprintf("maxreaders=%d %s", maxIn, w))
		}},
		{name: "waitgroup-wait-after-done", want: []string{"2"}, cached: true, body: func(obs *[]string) {
			var wg vsync.WaitGroup
			n := 0
			wg.Add(2)
			vsched.Go(func() { n++; wg.Done() })
			vsched.Go(func() { vsched.Yield(); n++; wg.Done() })
			wg.Wait()
			*obs = append(*obs, fmt.Sprint(n))
		}},
		{name: "deadlock-detected", want: []string{"DEADLOCK"}, body: func(obs *[]string) {
			ch := vsched.NewChan[int](0)
			ch.Recv()
		}},
		{name: "self-deadlock-on-rwmutex", want: []string{"DEADLOCK"}, body: func(obs *[]string) {
			var mu vsync.RWMutex
			mu.Lock()
			mu.RLock()
		}},
		{name: "leak-detected", want: []string{"LEAK:x"}, body: func(obs *[]string) {
			ch := vsched.NewChan[int](0)
			vsched.Go(func() { ch.Recv() })
			*obs = append(*obs, "x")
		}},
		{name: "send-on-closed-panics", want: []string{"PANIC"}, body: func(obs *[]string) {
			ch := vsched.NewChan[int](1)
			ch.Close()
			ch.Send(1)
		}},
		{name: "negative-waitgroup-panics", want: []string{"PANIC"}, body: func(obs *[]string) {
			var wg vsync.WaitGroup
			wg.Done()
		}},
		{name: "three-way-interleaving-count", want: []string{"abc", "acb", "bac", "bca", "cab", "cba"}, cached: true, body: func(obs *[]string) {
			ch := vsched.NewChan[string](3)
			for _, s := range []string{"a", "b", "c"} {
				s := s
				vsched.Go(func() { ch.Send(s) })
			}
			*obs = append(*obs, ch.Recv()+ch.Recv()+ch.Recv())
		}},
	}
}

func litmusRun(l litmus, cached bool) (outcomes []string, st vsched.Stats, err error) {
	var obs []string
	sc := &vsched.Scenario{
		Bound:   -1,
		NoCache: !cached,
		Body:    func() { obs = obs[:0]; l.body(&obs) },
		Check: func(o *vsched.Outcome) (string, string, string) {
			label := strings.Join(obs, ",")
			switch {
			case o.Panic != nil:
				label = "PANIC"
			case o.Deadlock:
				label = "DEADLOCK"
			case o.Leaked:
				label = "LEAK:" + label
			}
			return "", "", label
		},
	}
	st, _, err = vsched.Explore(sc)
	for k := range st.Outcomes {
		outcomes = append(outcomes, k)
	}
	sort.Strings(outcomes)
	return
}

func init() {
	register("C12", "litmus", &PartDef{
		Rule: "scheduler litmus suite: 15 small programs over the virtual primitives (buffered/unbuffered/nil/closed channels, select with several ready cases and with default, Mutex, RWMutex reader sharing and writer exclusion, WaitGroup, deadlock/leak/panic verdicts), each explored exhaustively with and without happens-before state caching; the set of observed outcomes must equal the set Go's semantics allow.",
		Gen:  func(tier string) []Spec { return []Spec{{Kind: "litmus", Params: params(struct{}{}), Bound: -1}} },
		Direct: func(sp Spec, p *ev.Part, known func(string) bool) {
			for _, l := range lit() {
				modes := []bool{false}
				if l.cached {
					modes = append(modes, true)
				}
				for _, cached := range modes {
					got, st, err := litmusRun(l, cached)
					if err != nil {
						p.Infra = fmt.Sprintf("litmus %s: %v", l.name, err)
						return
					}
					if strings.Join(got, "|") != strings.Join(l.want, "|") {
						p.Infra = fmt.Sprintf("scheduler litmus test %q (state caching %v) observed outcomes %v, Go semantics allow exactly %v", l.name, cached, got, l.want)
						return
					}
					p.Eval(int64(st.Executions + st.Cut))
					p.NontrivialN(int64(st.Executions))
					p.AddStates(int64(st.States), st.Steps, int64(st.Executions))
				}
			}
			p.AddCount("litmus_programs", int64(len(lit())))
			p.Sample(map[string]interface{}{"litmus": "rwmutex-readers-share-writer-excluded", "allowed_outcomes": lit()[7].want})
		},
	})
}
