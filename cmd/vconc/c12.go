package main

import (
	"github.com/biogo/hts/vsched"

	"verif/ev"
	"verif/faultio"
)

// C12: whole blocks in write order at every return of the underlying Write; Flush+Wait and
// Close durability. All schedules of the compressor goroutines, the emitter and the device
// (whose Write has a scheduling point before and after the transfer).

func init() {
	register("C12", "sched", &PartDef{
		Rule:  "writer scripts over {Wn, F(lush), A(wait), C(lose)} with 1-3 byte blocks cut by Flush (plus one Write spanning two real 65280-byte blocks), wc in {1,2,3}; every schedule of compressors/emitter/device up to the preemption bound (quick 2, thorough 3; unbounded for the two smallest scripts), with HB state caching; in each execution every device snapshot (at the return of each underlying Write) must end at a member boundary (independent RFC1952/BGZF parser) and decode to a prefix of the bytes offered so far, Flush+Wait==nil implies everything before the Flush is on the device, Close==nil implies everything plus the EOF marker; a one-shot underlying write failure must not be followed by further data (no hole); W1 F A W1 F A C with a persistent or one-shot failure of the first or second underlying Write (Wait==nil only with the data on the device); W65280 F A W1 F A C (a Flush with nothing left to flush must still be waited for). Also a bam.Writer (header, Flush, Wait, 2 records, Close). Non-trivial: executions with at least one scheduling choice.",
		Gen:   c12gen,
		Build: c12build,
	})
}

var c12scripts = []string{
	"W1 F W1 F C",
	"W1 F A W1 F A C",
	"W1 F W1 F W1 F A C",
	"W2 F W2 C",
	"W1 F F W1 A C",
	"W1 F W2 F A W1 C",
	"W3 F W1 F W2 F W1 A W1 F A C",
}

func c12gen(tier string) []Spec {
	var specs []Spec
	bound := 2
	if tier == "thorough" {
		bound = 3
	}
	for wc := 1; wc <= 3; wc++ {
		for i, s := range c12scripts {
			b := bound
			if i < 2 {
				b = -1
			}
			if tier == "quick" && i == len(c12scripts)-1 && wc > 1 {
				continue
			}
			sp := wspec(s, wc, 1, b, faultio.Fault{}, "c12")
			sp.BudgetS = 240
			specs = append(specs, sp)
		}
		// a single Write spanning two full blocks: both blocks are queued by one call
		sp := wspec("W65281 C", wc, 1, 1, faultio.Fault{}, "c12")
		sp.BudgetS = 240
		specs = append(specs, sp)
		// three full blocks through Write alone (a compressor is re-used while earlier blocks are
		// still on their way to the device), stored (level 0) to keep executions cheap
		if wc <= 2 {
			sp = wspec("W65280 W65280 W65280 C", wc, 0, bound, faultio.Fault{}, "c12")
			sp.BudgetS = 240
			specs = append(specs, sp)
			// the same without state caching: the happens-before key cannot tell apart two orders
			// of unsynchronised accesses (e.g. a buffer re-used while the device still reads it)
			sp.NoCache = true
			sp.Bound = bound - 1
			specs = append(specs, sp)
		}
		// one incompressible full block: the member is larger than any internal copy buffer
		sp = Spec{Kind: "writer", Params: params(wParams{Script: parseScript("W65280 C"), WC: wc, Level: 1, Oracle: "c12", Rand: true}), Bound: 1, BudgetS: 240}
		specs = append(specs, sp)
		// one-shot write failure at call k: nothing may follow the failed block
		for k := 1; k <= 3; k++ {
			sp := wspec("W1 F W1 F W1 F C", wc, 1, bound, faultio.Fault{At: k, Once: true}, "c12")
			sp.BudgetS = 240
			specs = append(specs, sp)
		}
		// Flush+Wait under a failing device: Wait may return nil only if the flushed data is
		// on the device (the failing Write may still be in flight when Wait is entered)
		for k := 1; k <= 2; k++ {
			for _, once := range []bool{false, true} {
				sp := wspec("W1 F A W1 F A C", wc, 1, bound, faultio.Fault{At: k, Once: once}, "c12")
				sp.BudgetS = 240
				specs = append(specs, sp)
			}
		}
		// Flush with nothing to flush: the data written since the last Flush ends exactly at a
		// block boundary, so Write queued it all and Flush is a no-op; Wait must still wait for it
		if wc <= 2 {
			sp = wspec("W65280 F A W1 F A C", wc, 0, bound, faultio.Fault{}, "c12")
			sp.BudgetS = 240
			specs = append(specs, sp)
		}
	}
	for wc := 1; wc <= 2; wc++ {
		specs = append(specs, Spec{Kind: "bam", Params: params(bamWParams{WC: wc}), Bound: bound, BudgetS: 240})
	}
	return specs
}

func c12build(sp Spec, p *ev.Part) *vsched.Scenario {
	if sp.Kind == "bam" {
		return bamWriterBuild(sp, p)
	}
	return writerBuild(sp, p)
}
