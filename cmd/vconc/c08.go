package main

import (
	"bytes"
	"fmt"
	"io"

	"github.com/biogo/hts/bgzf"
	"github.com/biogo/hts/vsched"

	"verif/ev"
	"verif/faultio"
	"verif/rdr"
)

// C08 (bytes independent of the schedule, marker iff closed) and C01(b) (round trip under all
// schedules of the writer's and the reader's goroutines).

func init() {
	register("C08", "sched", &PartDef{
		Rule:  "writer scripts {W1 F W1 F C; W2 F W2 C; W1 F A W1 C; W1 F W1 F W1 (not closed); W1 F W1 A (not closed); W65280 W65280 C stored} x wc 1..3, all schedules up to the preemption bound (2 quick, 3 thorough) with HB state caching (full blocks also without caching): output bytes must be identical in every schedule, well-formed BGZF at every device write, EOF marker present iff the script closed the writer; scripts {W1 C; W1 F W1 C} x wc 1,2 with a persistent or one-shot fault on each underlying Write in turn (the last is the marker's): the stream ends with the marker iff Close returned nil.",
		Gen:   c08gen,
		Build: writerBuild,
	})
	register("C01", "sched", &PartDef{
		Rule:  "writer: scripts {W1 F W1 F C; W2 F W2 C; W1 F W1 F W1 F A C; W65280 W65280 W65280 C stored (also without state caching)} x wc 1..3; reader: read plans {Read(all); ReadByte xN; Read(1) xN; Read(4) ReadByte Read(4) ReadByte...} to io.EOF on files [3 1 2]+EOF, [2 0 3] (no marker), [1 1 1 1 1]+EOF, [0 2 0 1]+EOF x rd {2,3}; composed: write W2 F W1 C with wc=2 then read the produced bytes with rd=2 in the same execution. All schedules up to preemption bound 2 (thorough 3). Oracle: decoded device content == written data; bytes read == flat copy then io.EOF; no deadlock, leak or panic.",
		Gen:   c01gen,
		Build: c01build,
	})
}

func c08gen(tier string) []Spec {
	bound := 2
	if tier == "thorough" {
		bound = 3
	}
	var specs []Spec
	for wc := 1; wc <= 3; wc++ {
		for i, s := range []string{"W1 F W1 F C", "W2 F W2 C", "W1 F A W1 C", "W1 F W1 F W1", "W1 F W1 A"} {
			b := bound
			if i == 0 && wc < 3 {
				b = -1
			}
			sp := wspec(s, wc, 1, b, faultio.Fault{}, "c08")
			sp.BudgetS = 240
			specs = append(specs, sp)
		}
		if wc <= 2 {
			sp := wspec("W65280 W65280 C", wc, 0, bound, faultio.Fault{}, "c08")
			sp.BudgetS = 240
			specs = append(specs, sp)
			sp.NoCache = true
			sp.Bound = 1
			specs = append(specs, sp)
		}
	}
	// the marker rule under a failing device: a fault on each underlying Write in turn
	// (the last one is the write of the marker itself); Close()==nil iff the marker is there
	for wc := 1; wc <= 2; wc++ {
		for _, sc := range []struct {
			s string
			n int
		}{{"W1 C", 2}, {"W1 F W1 C", 3}} {
			for k := 1; k <= sc.n; k++ {
				for _, once := range []bool{false, true} {
					sp := wspec(sc.s, wc, 1, bound, faultio.Fault{At: k, Once: once}, "c08")
					sp.BudgetS = 240
					specs = append(specs, sp)
				}
			}
		}
	}
	return specs
}

type rtParams struct {
	Script string `json:"script"`
	WC     int    `json:"wc"`
	RD     int    `json:"rd"`
}

func c01gen(tier string) []Spec {
	bound := 2
	if tier == "thorough" {
		bound = 3
	}
	var specs []Spec
	for wc := 1; wc <= 3; wc++ {
		for _, s := range []string{"W1 F W1 F C", "W2 F W2 C", "W1 F W1 F W1 F A C"} {
			sp := wspec(s, wc, 1, bound, faultio.Fault{}, "c01")
			sp.BudgetS = 240
			specs = append(specs, sp)
		}
		if wc <= 2 {
			sp := wspec("W65280 W65280 W65280 C", wc, 0, bound, faultio.Fault{}, "c01")
			sp.BudgetS = 240
			specs = append(specs, sp)
			sp.NoCache = true
			sp.Bound = 1
			specs = append(specs, sp)
		}
	}
	files := []struct {
		lens   []int
		marker bool
	}{{[]int{3, 1, 2}, true}, {[]int{2, 0, 3}, false}, {[]int{1, 1, 1, 1, 1}, true}, {[]int{0, 2, 0, 1}, true}}
	for _, f := range files {
		total := 0
		for _, l := range f.lens {
			total += l
		}
		plans := [][]rdr.Op{{{Op: "Read", N: 100}, {Op: "Read", N: 1}}}
		var pb, p1, alt []rdr.Op
		for i := 0; i <= total; i++ {
			pb = append(pb, rdr.Op{Op: "ReadByte"})
			p1 = append(p1, rdr.Op{Op: "Read", N: 1})
		}
		for got := 0; got <= total; {
			alt = append(alt, rdr.Op{Op: "Read", N: 4}, rdr.Op{Op: "ReadByte"})
			got += 5
		}
		plans = append(plans, pb, p1, alt)
		for _, rd := range []int{2, 3} {
			for pi, plan := range plans {
				if tier == "quick" && rd == 3 && pi >= 2 {
					continue
				}
				specs = append(specs, rspec(rParams{Lens: f.lens, Marker: f.marker, RD: rd, Ops: plan}, bound))
			}
		}
	}
	for _, rd := range []int{2} {
		specs = append(specs, Spec{Kind: "roundtrip", Params: params(rtParams{Script: "W2 F W1 C", WC: 2, RD: rd}), Bound: bound, BudgetS: 300})
	}
	return specs
}

func c01build(sp Spec, p *ev.Part) *vsched.Scenario {
	switch sp.Kind {
	case "writer":
		return writerBuild(sp, p)
	case "reader":
		return readerBuild(sp, p)
	}
	var pr rtParams
	mustParams(sp, &pr)
	var got, want []byte
	var werr, rerr error
	body := func() {
		got, want, werr, rerr = nil, nil, nil, nil
		dev := &faultio.Writer{}
		w, _ := bgzf.NewWriterLevel(dev, 1, pr.WC)
		off := 0
		for _, op := range parseScript(pr.Script) {
			switch op.Op {
			case "W":
				b := pattern(off, op.N)
				want = append(want, b...)
				off += op.N
				if _, err := w.Write(b); err != nil {
					werr = err
				}
			case "F":
				if err := w.Flush(); err != nil {
					werr = err
				}
			case "A":
				if err := w.Wait(); err != nil {
					werr = err
				}
			case "C":
				if err := w.Close(); err != nil {
					werr = err
				}
			}
		}
		r, err := bgzf.NewReader(bytes.NewReader(dev.Data), pr.RD)
		if err != nil {
			rerr = err
			return
		}
		got, rerr = io.ReadAll(r)
		if cerr := r.Close(); cerr != nil && rerr == nil {
			rerr = cerr
		}
	}
	check := func(o *vsched.Outcome) (string, string, string) {
		if s, m := vsched.StdVerdict(o); s != "" {
			return "roundtrip:" + s, m, s
		}
		label := fmt.Sprintf("%d bytes werr=%v rerr=%v", len(got), werr, rerr)
		if werr != nil || rerr != nil {
			return "roundtrip:unexpected-error", label, label
		}
		if !bytes.Equal(got, want) {
			return "roundtrip:wrong-data", fmt.Sprintf("read back %v, wrote %v", got, want), label
		}
		return "", "", label
	}
	return &vsched.Scenario{Body: body, Check: check}
}
