package main

import (
	"fmt"
	"io"

	"github.com/biogo/hts/bgzf"
	"github.com/biogo/hts/vsched"

	"verif/ev"
	"verif/faultio"
	"verif/rdr"
)

// Reader scenarios shared by C01(b), C02, C03 and C09: a history of operations on a
// bgzf.Reader with rd>1 (read-ahead worker, decompressor goroutines) explored under all
// schedules, each observation compared with the flat model.

type rParams struct {
	Lens      []int         `json:"lens"`
	Marker    bool          `json:"marker"`
	RD        int           `json:"rd"`
	Cache     string        `json:"cache,omitempty"` // cache attached before the first operation
	Cap       int           `json:"cap,omitempty"`
	Ops       []rdr.Op      `json:"ops"`
	ReadFault faultio.Fault `json:"read_fault"`
	SeekFault faultio.Fault `json:"seek_fault"`
	MaxRead   int           `json:"max_read,omitempty"`
	NoSeeker  bool          `json:"no_seeker,omitempty"`
}

type rObs struct {
	op  rdr.Op
	obs rdr.Obs
}

type rRun struct {
	newErr   error
	obs      []rObs
	closeErr error
	dev      *faultio.ReadSeeker
}

func readerBody(pr rParams, f *rdr.File, r *rRun) func() {
	return func() {
		*r = rRun{}
		dev := &faultio.ReadSeeker{Data: f.Data, ReadFault: pr.ReadFault, SeekFault: pr.SeekFault, MaxRead: pr.MaxRead}
		if pr.ReadFault.At != 0 || pr.SeekFault.At != 0 {
			dev.Hook = vsched.Yield // the completion of device calls is ordered freely against API calls
		}
		r.dev = dev
		var src io.Reader = dev
		if pr.NoSeeker {
			src = faultio.Reader{RS: dev}
		}
		rd, err := bgzf.NewReader(src, pr.RD)
		if err != nil {
			r.newErr = err
			return
		}
		if pr.Cache != "" {
			rd.SetCache(rdr.NewCache(pr.Cache, pr.Cap))
		}
		for _, op := range pr.Ops {
			// the caller's goroutine can be descheduled between two API calls even when the
			// calls themselves perform no synchronisation (ReadByte inside one block)
			vsched.Yield()
			r.obs = append(r.obs, rObs{op, rdr.Do(f, rd, op)})
		}
		r.closeErr = rd.Close()
	}
}

func isRealErr(err error) bool { return err != nil && err != io.EOF }

// readerCheck compares the observations of one execution with the flat model. With faults
// injected an operation may fail; what it returned before failing must still be correct.
func readerCheck(pr rParams, f *rdr.File, r *rRun, prefix string) func(o *vsched.Outcome) (string, string, string) {
	return func(o *vsched.Outcome) (sig, msg, label string) {
		if s, m := vsched.StdVerdict(o); s != "" {
			return prefix + s, m, s
		}
		faults := pr.ReadFault.At != 0 || pr.SeekFault.At != 0
		label = fmt.Sprintf("devfailed=%d", r.dev.Failed)
		if r.newErr != nil {
			if faults && r.dev.Failed > 0 {
				return "", "", label + " newreader-error"
			}
			return prefix + "newreader-error", fmt.Sprintf("NewReader failed without an injected fault: %v", r.newErr), label
		}
		m := rdr.NewModel(f)
		broken := false // an operation failed: the position is only known again after a successful Seek
		for i, ro := range r.obs {
			op, ob := ro.op, ro.obs
			label += fmt.Sprintf("|%d:%d,%v", i, len(ob.Data), ob.Err != nil)
			hist := rdr.OpsString(pr.Ops[:i+1])
			if isRealErr(ob.Err) {
				if !(faults && r.dev.Failed > 0) {
					return prefix + "unexpected-error:" + op.Op, fmt.Sprintf("%s returned %v although no fault was injected\nhistory: %s", op, ob.Err, hist), label
				}
				if !broken && (op.Op == "Read" || op.Op == "ReadByte") {
					e := m.Apply(op)
					if len(ob.Data) > len(e.Data) || string(ob.Data) != string(e.Data[:len(ob.Data)]) {
						return prefix + "wrong-bytes-before-error", fmt.Sprintf("%s returned %v with error %v; the flat copy holds %v there\nhistory: %s", op, ob.Data, ob.Err, e.Data, hist), label
					}
				}
				broken = true
				continue
			}
			switch op.Op {
			case "Seek":
				broken = false
				e := m.Apply(op)
				if s, mm := rdr.Compare(f, op, e, ob); s != "" {
					return prefix + s + ":" + op.Op, mm + "\nhistory: " + hist, label
				}
			case "Read", "ReadByte":
				if broken {
					if len(ob.Data) > 0 || ob.Err == io.EOF {
						return prefix + "result-after-unrecovered-error", fmt.Sprintf("%s returned %v, err=%v after an earlier operation had failed and no Seek had succeeded since\nhistory: %s", op, ob.Data, ob.Err, hist), label
					}
					continue
				}
				e := m.Apply(op)
				if s, mm := rdr.Compare(f, op, e, ob); s != "" {
					return prefix + s + ":" + op.Op, mm + "\nhistory: " + hist, label
				}
			default:
				m.Apply(op)
			}
		}
		if isRealErr(r.closeErr) && !(faults && r.dev.Failed > 0) {
			return prefix + "close-error", fmt.Sprintf("Close returned %v without an injected fault", r.closeErr), label
		}
		return "", "", label
	}
}

func readerBuild(sp Spec, p *ev.Part) *vsched.Scenario {
	var pr rParams
	mustParams(sp, &pr)
	f := rdr.MakeFile(fmt.Sprint(pr.Lens), pr.Lens, pr.Marker)
	r := &rRun{}
	prefix := ""
	if pr.Cache != "" {
		prefix = pr.Cache + ":"
	}
	for _, op := range pr.Ops {
		if op.Op == "SetCache" && op.Cache != "" {
			prefix = op.Cache + ":"
		}
	}
	return &vsched.Scenario{Body: readerBody(pr, f, r), Check: readerCheck(pr, f, r, prefix)}
}

func rspec(pr rParams, bound int) Spec {
	return Spec{Kind: "reader", Params: params(pr), Bound: bound, BudgetS: 300}
}

// histories enumerates all sequences over menu of length 1..maxLen (shorter first).
func histories(menu []rdr.Op, maxLen int) [][]rdr.Op {
	var out [][]rdr.Op
	level := [][]rdr.Op{nil}
	for l := 1; l <= maxLen; l++ {
		var next [][]rdr.Op
		for _, h := range level {
			for _, op := range menu {
				nh := append(append([]rdr.Op(nil), h...), op)
				next = append(next, nh)
			}
		}
		out = append(out, next...)
		level = next
	}
	return out
}

// useful drops histories whose last operation observes nothing (a toggle at the end).
func useful(h []rdr.Op) bool {
	last := h[len(h)-1].Op
	return last == "Read" || last == "ReadByte" || last == "Seek"
}
