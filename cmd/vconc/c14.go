package main

import (
	"fmt"
	"sort"
	"strings"
	"sync"

	"github.com/anishathalye/porcupine"
	"github.com/biogo/hts/bgzf"
	"github.com/biogo/hts/bgzf/cache"
	"github.com/biogo/hts/vsched"

	"verif/ev"
)

// C14: cache contract. Two kinds of scenario:
//   kind "bfs": explicit-state search over sequential operation histories on one cache, every
//     transition executed on the real cache under the scheduler (single thread; a self-deadlock
//     on the RWMutex is detected exactly) and compared with the reference model.
//   kind "conc": 2-3 threads with 1-2 operations each on colliding bases, every interleaving,
//     each complete history checked for linearizability against the same model with porcupine.

func init() {
	register("C14", "cache", &PartDef{
		Rule:   "bfs: breadth-first search to a fixpoint over histories of {Put(base in 0..2, used/unused; a fresh block or the block the cache last handed back, overwritten with the new member as the Reader does), Get, Peek, Len, Cap, Resize(1..3), Drop(0..2), Free(0..2)} for each cache kind {LRU,FIFO,Random,StatsRecorder(LRU),StatsRecorder(FIFO),StatsRecorder(Random)} x initial capacity 1..3; Random's map iteration order is an explorer choice, all orders taken; state key = capacity, policy queue (keys, bases, used flags, which entry aliases the block in the caller's hand), hand; each transition compared with the list model (result, queue order, table consistency, handed-out block no longer indexed, Len<=Cap, StatsRecorder counters). conc: all interleavings (no preemption bound) of 2-3 threads x 1-2 ops from {Put new used/unused block at base 0/1, Get, Peek, Len, Drop(1), Resize(1)} on caches pre-filled with 0..2 blocks; history of call/return events checked with porcupine. Non-trivial: bfs transitions that change or query a non-empty cache; conc executions with at least one choice point.",
		Gen:    c14gen,
		Direct: c14direct,
		Build: func(sp Spec, p *ev.Part) *vsched.Scenario {
			if sp.Kind == "conc" {
				return c14concScenario(sp)
			}
			return nil // bfs scenarios drive the scheduler themselves
		},
	})
}

var c14kinds = []string{"LRU", "FIFO", "Random", "Stats(LRU)", "Stats(FIFO)", "Stats(Random)"}

type c14bfsParams struct {
	Kind     string `json:"kind"`
	Cap      int    `json:"cap"`
	MaxDepth int    `json:"max_depth,omitempty"`
	// replay only
	Ops     []cop `json:"ops,omitempty"`
	Choices []int `json:"choices,omitempty"`
}

type c14concParams struct {
	Kind    string  `json:"kind"`
	Cap     int     `json:"cap"`
	Prefill []cop   `json:"prefill"`
	Threads [][]cop `json:"threads"`
}

func c14gen(tier string) []Spec {
	var specs []Spec
	for _, k := range c14kinds {
		for cp := 1; cp <= 3; cp++ {
			if tier == "quick" && cp == 3 && strings.HasPrefix(k, "Stats") {
				continue
			}
			specs = append(specs, Spec{Kind: "bfs", Params: params(c14bfsParams{Kind: k, Cap: cp}), Bound: -1})
		}
	}
	// concurrent histories
	alpha := []cop{
		{Op: "Put", Base: 0, Used: true}, {Op: "Put", Base: 0, Used: false}, {Op: "Put", Base: 1, Used: true}, {Op: "Put", Base: 1, Used: false},
		{Op: "Get", Base: 0}, {Op: "Get", Base: 1}, {Op: "Peek", Base: 0}, {Op: "Peek", Base: 1},
		{Op: "Len"}, {Op: "Drop", N: 1}, {Op: "Resize", N: 1},
	}
	prefills := [][]cop{
		{},
		{{Op: "Put", Base: 0, Used: true}},
		{{Op: "Put", Base: 0, Used: true}, {Op: "Put", Base: 1, Used: false}},
	}
	kinds := c14kinds
	add := func(k string, cp int, pre []cop, th [][]cop) {
		specs = append(specs, Spec{Kind: "conc", Params: params(c14concParams{Kind: k, Cap: cp, Prefill: pre, Threads: th}), Bound: -1})
	}
	for _, k := range kinds {
		for _, pre := range prefills {
			for i, a := range alpha {
				for j, b := range alpha {
					if j < i {
						continue // two threads with one op each are symmetric
					}
					add(k, 2, pre, [][]cop{{a}, {b}})
				}
			}
		}
	}
	// the same two-thread scenarios with a scheduling point after every unlock (a critical
	// section shortened so that a read follows the unlock shows only there)
	n2 := len(specs)
	for i := 0; i < n2; i++ {
		if specs[i].Kind == "conc" {
			sp := specs[i]
			sp.PostRel = true
			specs = append(specs, sp)
		}
	}
	// three threads, and two ops in one thread
	var sub []cop
	if tier == "thorough" {
		sub = alpha
	} else {
		sub = []cop{alpha[0], alpha[1], alpha[4], alpha[6], alpha[9]}
	}
	for _, k := range kinds {
		if tier == "quick" && strings.HasPrefix(k, "Stats") && k != "Stats(LRU)" {
			continue
		}
		for pi, pre := range prefills {
			if tier == "quick" && pi == 0 {
				continue
			}
			for i, a := range sub {
				for j, b := range sub {
					if j < i {
						continue
					}
					for l, c := range sub {
						if l < j {
							continue
						}
						add(k, 2, pre, [][]cop{{a}, {b}, {c}})
					}
					for _, c := range sub {
						add(k, 2, pre, [][]cop{{a, c}, {b}})
					}
				}
			}
		}
	}
	return specs
}

func c14direct(sp Spec, p *ev.Part, known func(string) bool) {
	switch sp.Kind {
	case "bfs":
		c14bfs(sp, p, known)
	}
}

func newCache(kind string, n int) bgzf.Cache {
	inner := strings.TrimSuffix(strings.TrimPrefix(kind, "Stats("), ")")
	var c cache.Cache
	switch inner {
	case "LRU":
		c = cache.NewLRU(n)
	case "FIFO":
		c = cache.NewFIFO(n)
	case "Random":
		c = cache.NewRandom(n)
	}
	if strings.HasPrefix(kind, "Stats(") {
		return &cache.StatsRecorder{Cache: c}
	}
	return c
}

func newModel(kind string, n int) cmodel {
	inner := strings.TrimSuffix(strings.TrimPrefix(kind, "Stats("), ")")
	return cmodel{Kind: inner, Stats: strings.HasPrefix(kind, "Stats("), Cap: n}
}

// extCache reaches the inspection methods through a StatsRecorder.
func extCache(c bgzf.Cache) cache.Cache {
	if s, ok := c.(*cache.StatsRecorder); ok {
		return s.Cache.(cache.Cache)
	}
	return c.(cache.Cache)
}

// ---------------------------------------------------------------------------------------------
// sequential harness: executes a history on a fresh cache the way the Reader uses one

type seqRun struct {
	results []cres
	// state after the last operation
	dumpIDs   []int
	dumpKeys  []int64
	dumpBases []int64
	dumpUsed  []bool
	dumpCap   int
	hand      int // pool index of the block in the caller's hand, -1 none
	handBase  int64
	handUsed  bool
	stats     cstats
	lenNow    int
	capNow    int
}

// memberUnits converts a file offset to the model's member index (offsets are multiples of
// blockSpan; anything else maps to a value the model never expects).
func memberUnits(off int64) int64 {
	if off < 0 {
		return off
	}
	if off%blockSpan != 0 {
		return -1000 - off
	}
	return off / blockSpan
}

func blockData(id int, base int64) []byte { return []byte(fmt.Sprintf("blk%d@%d", id, base)) }

// seqBody returns the body that replays ops; Put takes the block in hand (overwritten with the
// new member) or a fresh block.
func seqBody(kind string, cp int, ops []cop, r *seqRun) func() {
	return func() {
		c := newCache(kind, cp)
		var pool []bgzf.Block
		idOf := func(b bgzf.Block) int {
			if b == nil {
				return -1
			}
			for i, x := range pool {
				if x == b {
					return i
				}
			}
			return -2
		}
		hand := -1
		r.results = r.results[:0]
		for _, op := range ops {
			var res cres
			res.ID = -1
			switch op.Op {
			case "Put":
				var blk bgzf.Block
				if hand >= 0 {
					blk = pool[hand]
					bgzf.VerifRebase(blk, op.Base*blockSpan, blockSpan, blockData(hand, op.Base), op.Used)
				} else {
					blk = bgzf.VerifNewBlock(nil, op.Base*blockSpan, blockSpan, blockData(len(pool), op.Base), op.Used)
					pool = append(pool, blk)
				}
				evd, ret := c.Put(blk)
				res.ID, res.Retained = idOf(evd), ret
				hand = idOf(evd)
			case "Get":
				blk := c.Get(op.Base * blockSpan)
				res.ID = idOf(blk)
				if blk != nil {
					res.GotBase = blk.Base() / blockSpan
					hand = res.ID
				}
			case "Peek":
				ex, next := c.Peek(op.Base * blockSpan)
				res.Exists, res.Next = ex, memberUnits(next)
			case "Len":
				res.N = extCache(c).Len()
			case "Cap":
				res.N = extCache(c).Cap()
			case "Resize":
				extCache(c).Resize(op.N)
			case "Drop":
				extCache(c).Drop(op.N)
			case "Free":
				res.OK = cache.Free(op.N, extCache(c))
			}
			r.results = append(r.results, res)
		}
		blocks, keys, capacity := cache.VerifDump(c)
		r.dumpIDs, r.dumpKeys, r.dumpBases, r.dumpUsed = nil, nil, nil, nil
		for i, b := range blocks {
			r.dumpIDs = append(r.dumpIDs, idOf(b))
			r.dumpKeys = append(r.dumpKeys, keys[i])
			r.dumpBases = append(r.dumpBases, b.Base())
			r.dumpUsed = append(r.dumpUsed, b.Used())
		}
		r.dumpCap = capacity
		r.hand = hand
		if hand >= 0 {
			r.handBase, r.handUsed = pool[hand].Base(), pool[hand].Used()
		}
		r.lenNow, r.capNow = extCache(c).Len(), extCache(c).Cap()
		if s, ok := c.(*cache.StatsRecorder); ok {
			st := s.Stats()
			r.stats = cstats{st.Gets, st.Misses, st.Puts, st.Retains, st.Evictions}
		}
	}
}

// modelOp translates a harness op to model units and fills the identity of the block put.
type bfsNode struct {
	ops     []cop
	choices []int
	model   cmodel
	hand    int
	npool   int
	depth   int
}

func c14menu() []cop {
	var m []cop
	for b := int64(0); b < 3; b++ {
		m = append(m, cop{Op: "Put", Base: b, Used: true}, cop{Op: "Put", Base: b, Used: false})
	}
	for b := int64(0); b < 3; b++ {
		m = append(m, cop{Op: "Get", Base: b})
	}
	for b := int64(0); b < 3; b++ {
		m = append(m, cop{Op: "Peek", Base: b})
	}
	m = append(m, cop{Op: "Len"}, cop{Op: "Cap"})
	for n := 1; n <= 3; n++ {
		m = append(m, cop{Op: "Resize", N: n})
	}
	for n := 0; n <= 2; n++ {
		m = append(m, cop{Op: "Drop", N: n})
	}
	for n := 0; n <= 2; n++ {
		m = append(m, cop{Op: "Free", N: n})
	}
	return m
}

func opsString(ops []cop) string {
	var s []string
	for _, o := range ops {
		s = append(s, o.String())
	}
	return strings.Join(s, "; ")
}

// c14step executes node.ops+op with the given choice prefix and checks the last operation
// against the model. It returns the successor node (nil on violation or known finding), the
// outcome (for enumerating further choice alternatives) and whether the transition was
// non-trivial.
func c14step(sp Spec, pr c14bfsParams, p *ev.Part, known func(string) bool, n *bfsNode, op cop, choices []int) (*bfsNode, *vsched.Outcome, bool) {
	if op.Op == "Put" {
		if n.hand >= 0 {
			op.ID = n.hand
		} else {
			op.ID = n.npool
		}
	}
	ops := append(append([]cop(nil), n.ops...), op)
	var r seqRun
	out, div := vsched.Run(vsched.Config{Prefix: choices}, seqBody(pr.Kind, pr.Cap, ops, &r))
	cas := sp
	cas.Params = params(c14bfsParams{Kind: pr.Kind, Cap: pr.Cap, Ops: ops, Choices: out.Choices()})
	fail := func(sig, msg string) {
		full := fmt.Sprintf("%s\ncache %s(cap %d), history: %s\nmodel before last op: %s", msg, pr.Kind, pr.Cap, opsString(ops), n.model.key())
		p.Violate(sig, full, cas)
	}
	if div != "" {
		p.Infra = div
		return nil, &out, false
	}
	if sig, msg := vsched.StdVerdict(&out); sig != "" {
		fail(fmt.Sprintf("%s:%s:%s", pr.Kind, op.Op, sig), msg)
		return nil, &out, true
	}
	res := r.results[len(r.results)-1]
	mop, mres := op, res
	cands, why := n.model.next(mop, mres)
	if len(cands) == 0 {
		fail(fmt.Sprintf("%s:%s:model-disagrees", pr.Kind, op.Op), fmt.Sprintf("%s observed %+v: %s", op, res, why))
		return nil, &out, true
	}
	if r.hand >= 0 {
		for _, id := range r.dumpIDs {
			if id == r.hand {
				fail(fmt.Sprintf("%s:%s:handed-out-block-still-indexed:used=%v", pr.Kind, op.Op, r.handUsed), fmt.Sprintf("blk%d (used=%v) was handed to the caller by %s but is still indexed by the cache", id, r.handUsed, op))
				return nil, &out, true
			}
		}
	}
	// pick the candidate that matches the real cache's queue
	var chosen *cmodel
	var mism string
	for i := range cands {
		if m := c14matchDump(&cands[i], &r); m == "" {
			chosen = &cands[i]
			break
		} else {
			mism = m
		}
	}
	if chosen == nil {
		fail(fmt.Sprintf("%s:%s:state-disagrees", pr.Kind, op.Op), fmt.Sprintf("after %s the cache's contents differ from the policy model: %s\nreal queue: ids=%v keys=%v bases=%v used=%v cap=%d", op, mism, r.dumpIDs, r.dumpKeys, r.dumpBases, r.dumpUsed, r.dumpCap))
		return nil, &out, true
	}
	// invariants stated by the property
	if r.lenNow > r.capNow {
		fail(fmt.Sprintf("%s:%s:len-exceeds-cap", pr.Kind, op.Op), fmt.Sprintf("Len %d > Cap %d", r.lenNow, r.capNow))
		return nil, &out, true
	}
	for i, k := range r.dumpKeys {
		if k != r.dumpBases[i] {
			fail(fmt.Sprintf("%s:%s:stale-index", pr.Kind, op.Op), fmt.Sprintf("cache indexes blk%d under offset %d but its base is %d (Get/Peek of %d would return another member)", r.dumpIDs[i], k, r.dumpBases[i], k))
			return nil, &out, true
		}
	}
	if chosen.Stats && r.stats != chosen.St {
		fail(fmt.Sprintf("%s:%s:stats", pr.Kind, op.Op), fmt.Sprintf("StatsRecorder reports %+v, model %+v", r.stats, chosen.St))
		return nil, &out, true
	}
	npool := n.npool
	if op.Op == "Put" && n.hand < 0 {
		npool++
	}
	nontrivial := len(n.model.List) > 0 || op.Op == "Put"
	return &bfsNode{ops: ops, choices: out.Choices(), model: *chosen, hand: r.hand, npool: npool, depth: n.depth + 1}, &out, nontrivial
}

func c14matchDump(m *cmodel, r *seqRun) string {
	if m.Cap != r.dumpCap {
		return fmt.Sprintf("capacity %d, model %d", r.dumpCap, m.Cap)
	}
	if len(m.List) != len(r.dumpIDs) {
		return fmt.Sprintf("%d blocks cached, model %d", len(r.dumpIDs), len(m.List))
	}
	if m.Kind == "Random" {
		a := append([]int(nil), r.dumpIDs...)
		var b []int
		for _, e := range m.List {
			b = append(b, e.ID)
		}
		sort.Ints(a)
		sort.Ints(b)
		for i := range a {
			if a[i] != b[i] {
				return fmt.Sprintf("cached set %v, model %v", a, b)
			}
		}
		return ""
	}
	for i, e := range m.List {
		if r.dumpIDs[i] != e.ID {
			return fmt.Sprintf("queue position %d holds blk%d, model blk%d (model queue %s)", i, r.dumpIDs[i], e.ID, m.key())
		}
	}
	return ""
}

// canonical state key: identities are rendered relative to the hand only.
func c14key(n *bfsNode) string {
	var sb strings.Builder
	fmt.Fprintf(&sb, "cap=%d [", n.model.Cap)
	for _, e := range n.model.List {
		fmt.Fprintf(&sb, "(b%d u%v h%v)", e.Base, e.Used, e.ID == n.hand)
	}
	fmt.Fprintf(&sb, "] hand=%v", n.hand >= 0)
	return sb.String()
}

func c14bfs(sp Spec, p *ev.Part, known func(string) bool) {
	var pr c14bfsParams
	mustParams(sp, &pr)
	if pr.Ops != nil { // replay of one transition
		n := &bfsNode{model: newModel(pr.Kind, pr.Cap), hand: -1}
		// rebuild the node by stepping through the history
		for i, op := range pr.Ops {
			nn, _, _ := c14step(sp, pr, p, known, n, op, pr.Choices)
			if nn == nil {
				if i != len(pr.Ops)-1 && p.NumViolations() == 0 {
					p.Infra = "replay: history cannot be re-executed"
				}
				return
			}
			n = nn
		}
		return
	}
	menu := c14menu()
	root := &bfsNode{model: newModel(pr.Kind, pr.Cap), hand: -1}
	seen := map[string]bool{c14key(root): true}
	frontier := []*bfsNode{root}
	var states, transitions, nontriv int64 = 1, 0, 0
	maxDepth := 0
	for len(frontier) > 0 {
		var nextFrontier []*bfsNode
		for _, n := range frontier {
			for _, op := range menu {
				// all resolutions of the data choices inside this one operation
				stack := [][]int{n.choices}
				for len(stack) > 0 {
					ch := stack[len(stack)-1]
					stack = stack[:len(stack)-1]
					nn, out, nt := c14step(sp, pr, p, known, n, op, ch)
					transitions++
					if nt {
						nontriv++
					}
					if p.Infra != "" {
						return
					}
					for i := len(ch); i < len(out.Points); i++ {
						for alt := 1; alt < out.Points[i].N; alt++ {
							np := append(append([]int(nil), out.Choices()[:i]...), alt)
							stack = append(stack, np)
						}
					}
					if nn == nil {
						continue
					}
					k := c14key(nn)
					if !seen[k] {
						seen[k] = true
						states++
						nextFrontier = append(nextFrontier, nn)
						if nn.depth > maxDepth {
							maxDepth = nn.depth
						}
					}
				}
			}
		}
		frontier = nextFrontier
	}
	p.Eval(transitions)
	p.NontrivialN(nontriv)
	p.AddStates(states, transitions, transitions)
	p.AddCount("bfs_fixpoints_reached", 1)
	p.AddCount("scenarios", 1)
	p.Sample(map[string]interface{}{"scenario": sp, "states": states, "transitions": transitions, "max_depth": maxDepth, "fixpoint": true})
}

// ---------------------------------------------------------------------------------------------
// concurrent histories

// resClass abstracts an operation's result for violation signatures.
func resClass(op cop, r cres, pool []bgzf.Block) string {
	switch op.Op {
	case "Put":
		switch {
		case !r.Retained:
			return "(refused)"
		case r.ID >= 0:
			return "(evicting)"
		}
		return "(retained)"
	case "Get":
		if r.ID < 0 {
			return "(miss)"
		}
		if r.ID < len(pool) && pool[r.ID].Used() {
			return "(hit-used)"
		}
		return "(hit-unused)"
	case "Peek":
		if r.Exists {
			return "(exists)"
		}
		return "(absent)"
	}
	return ""
}

type concEvent struct {
	thread     int
	op         cop
	res        cres
	call, retn int64
}

func c14concScenario(sp Spec) *vsched.Scenario {
	var pr c14concParams
	mustParams(sp, &pr)
	var events []concEvent
	var pool []bgzf.Block
	var clock int64
	var hmu sync.Mutex // history log: shared by the threads (matters only when running free)
	var initial cmodel
	body := func() {
		events = events[:0]
		clock = 0
		c := newCache(pr.Kind, pr.Cap)
		m := newModel(pr.Kind, pr.Cap)
		pool = pool[:0]
		idOf := func(b bgzf.Block) int {
			if b == nil {
				return -1
			}
			for i, x := range pool {
				if x == b {
					return i
				}
			}
			return -2
		}
		newBlock := func(op cop) bgzf.Block {
			b := bgzf.VerifNewBlock(nil, op.Base*blockSpan, blockSpan, blockData(len(pool), op.Base), op.Used)
			pool = append(pool, b)
			return b
		}
		for _, op := range pr.Prefill {
			op.ID = len(pool)
			ev, ret := c.Put(newBlock(op))
			ms, _ := m.next(op, cres{ID: idOf(ev), Retained: ret})
			if len(ms) == 0 {
				panic("harness: prefill disagrees with the model (covered by the bfs scenarios)")
			}
			m = ms[0]
		}
		initial = m
		// blocks for the threads' puts are created up front so identities do not depend on the schedule
		type job struct {
			op  cop
			blk bgzf.Block
		}
		jobs := make([][]job, len(pr.Threads))
		for ti, th := range pr.Threads {
			for _, op := range th {
				j := job{op: op}
				if op.Op == "Put" {
					j.op.ID = len(pool)
					j.blk = newBlock(op)
				}
				jobs[ti] = append(jobs[ti], j)
			}
		}
		done := vsched.NewChan[int](len(pr.Threads))
		for ti := range jobs {
			ti := ti
			vsched.Go(func() {
				for _, j := range jobs[ti] {
					e := concEvent{thread: ti, op: j.op}
					e.res.ID = -1
					var refill bgzf.Block
					hmu.Lock()
					clock++
					e.call = clock
					hmu.Unlock()
					switch j.op.Op {
					case "Put":
						evd, ret := c.Put(j.blk)
						e.res.ID, e.res.Retained = idOf(evd), ret
					case "Get":
						b := c.Get(j.op.Base * blockSpan)
						e.res.ID = idOf(b)
						if b != nil {
							e.res.GotBase = b.Base() / blockSpan
							refill = b
						}
					case "Peek":
						ex, next := c.Peek(j.op.Base * blockSpan)
						e.res.Exists, e.res.Next = ex, memberUnits(next)
					case "Len":
						e.res.N = extCache(c).Len()
					case "Drop":
						extCache(c).Drop(j.op.N)
					case "Resize":
						extCache(c).Resize(j.op.N)
					}
					hmu.Lock()
					clock++
					e.retn = clock
					events = append(events, e)
					hmu.Unlock()
					if refill != nil && !strings.Contains(pr.Kind, "FIFO") {
						// the caller owns a block it got ("the returned Block must be removed
						// from the Cache") and, like the Reader, overwrites it with another
						// member; nothing the cache reports afterwards may reflect that. (Not
						// done for FIFO, whose Get leaves used blocks indexed: open finding.)
						bgzf.VerifRebase(refill, 7*blockSpan, blockSpan, []byte("refilled"), true)
					}
				}
				done.Send(ti)
			})
		}
		for range jobs {
			done.Recv()
		}
		// epilogue: after all threads are done the main thread observes the cache; whatever
		// order the concurrent calls are given, the state they leave must explain these too
		for _, op := range []cop{{Op: "Len"}, {Op: "Cap"}, {Op: "Peek", Base: 0}, {Op: "Peek", Base: 1}} {
			e := concEvent{thread: len(jobs), op: op}
			e.res.ID = -1
			clock++
			e.call = clock
			switch op.Op {
			case "Len":
				e.res.N = extCache(c).Len()
			case "Cap":
				e.res.N = extCache(c).Cap()
			case "Peek":
				ex, next := c.Peek(op.Base * blockSpan)
				e.res.Exists, e.res.Next = ex, memberUnits(next)
			}
			clock++
			e.retn = clock
			events = append(events, e)
		}
	}
	sc := &vsched.Scenario{
		Body: body,
		Check: func(o *vsched.Outcome) (string, string, string) {
			if sig, msg := vsched.StdVerdict(o); sig != "" {
				return pr.Kind + ":conc:" + sig, msg, sig
			}
			nm := porcupine.NondeterministicModel{
				Init: func() []interface{} { return []interface{}{initial} },
				Step: func(state, input, output interface{}) []interface{} {
					ms, _ := state.(cmodel).next(input.(cop), output.(cres))
					r := make([]interface{}, len(ms))
					for i := range ms {
						r[i] = ms[i]
					}
					return r
				},
				Equal: func(a, b interface{}) bool { return a.(cmodel).key() == b.(cmodel).key() },
			}
			var hist []porcupine.Operation
			var desc []string
			for _, e := range events {
				hist = append(hist, porcupine.Operation{ClientId: e.thread, Input: e.op, Call: e.call, Output: e.res, Return: e.retn})
				desc = append(desc, fmt.Sprintf("t%d[%d,%d] %s -> %+v", e.thread, e.call, e.retn, e.op, e.res))
			}
			label := strings.Join(desc, " | ")
			if !porcupine.CheckOperations(nm.ToModel(), hist) {
				var ops []string
				for _, e := range events {
					ops = append(ops, e.op.Op+resClass(e.op, e.res, pool))
				}
				sort.Strings(ops)
				return pr.Kind + ":conc:not-linearizable:" + strings.Join(ops, "+"), "history is not linearizable w.r.t. the sequential cache model:\n  initial " + initial.key() + "\n  " + strings.Join(desc, "\n  "), label
			}
			return "", "", label
		},
	}
	return sc
}
