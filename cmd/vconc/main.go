// vconc runs the scheduler-based (engine E1) parts of the checks: the bgzf and bgzf/cache
// packages it links are the repository's sources after vinst's mechanical rewrite, so every
// execution explored here is an execution of the real code under a controlled schedule.
//
// The parent process enumerates scenario specs and farms them out to worker processes
// (one exploration at a time per process: the scheduler is a process-global).
package main

import (
	"encoding/json"
	"flag"
	"fmt"
	"os"
	"os/exec"
	"path/filepath"
	"runtime"
	"runtime/debug"
	"sort"
	"sync"
	"time"

	"github.com/biogo/hts/vsched"

	"verif/ev"
)

// Spec names one scenario: which part builds it and with what parameters.
type Spec struct {
	Prop    string          `json:"prop"`
	Part    string          `json:"part"`
	Kind    string          `json:"kind"`
	Params  json.RawMessage `json:"params"`
	Bound   int             `json:"bound"`
	MaxExec int             `json:"max_exec,omitempty"`
	BudgetS int             `json:"budget_s,omitempty"` // wall-clock budget; exceeding it ends the run with exhaustive:false, never a verdict
	Choices []int           `json:"choices,omitempty"`  // replay only
	NoCache bool            `json:"no_cache,omitempty"` // explore without happens-before state caching (sees orderings of unsynchronised accesses)
	PostRel bool            `json:"post_release,omitempty"` // extra scheduling point after every Unlock/RUnlock (see vsched.PostRelease)
}

func (s Spec) String() string {
	nc := ""
	if s.NoCache {
		nc = " nocache"
	}
	if s.PostRel {
		nc += " post-release-points"
	}
	return fmt.Sprintf("%s/%s %s %s bound=%d%s", s.Prop, s.Part, s.Kind, string(s.Params), s.Bound, nc)
}

// PartDef is what a part registers.
type PartDef struct {
	Rule   string
	Gen    func(tier string) []Spec                           // enumerate scenarios, simplest first
	Build  func(sp Spec, p *ev.Part) *vsched.Scenario         // nil Scenario: the spec is run by Direct
	Direct func(sp Spec, p *ev.Part, known func(string) bool) // parts that drive the explorer themselves (BFS etc.)
}

var partDefs = map[string]*PartDef{}

func register(prop, part string, d *PartDef) { partDefs[prop+"/"+part] = d }

func mustParams(sp Spec, v interface{}) {
	if err := json.Unmarshal(sp.Params, v); err != nil {
		panic(fmt.Sprintf("bad params %s: %v", sp.Params, err))
	}
}

func params(v interface{}) json.RawMessage {
	b, err := json.Marshal(v)
	if err != nil {
		panic(err)
	}
	return b
}

func knownFunc(prop, part string) func(string) bool {
	ks := ev.LoadKnown("/verif/known_findings.txt")
	return func(sig string) bool {
		full := part + ":" + sig
		for _, k := range ks {
			if k.Status == "open" && k.Property == prop && k.Re.MatchString(full) {
				return true
			}
		}
		return false
	}
}

// runSpec explores one scenario inside this process and folds the result into p.
func runSpec(sp Spec, p *ev.Part) {
	d := partDefs[sp.Prop+"/"+sp.Part]
	known := knownFunc(sp.Prop, sp.Part)
	if d.Direct != nil && (d.Build == nil) {
		d.Direct(sp, p, known)
		return
	}
	vsched.PostRelease = sp.PostRel
	sc := d.Build(sp, p)
	if sc == nil {
		d.Direct(sp, p, known)
		return
	}
	sc.Name = sp.String()
	sc.Bound = sp.Bound
	sc.MaxExec = sp.MaxExec
	sc.NoCache = sp.NoCache
	sc.Known = known
	if sp.BudgetS > 0 {
		sc.Deadline = time.Now().Add(time.Duration(sp.BudgetS) * time.Second)
	}
	st, fail, err := vsched.Explore(sc)
	if err != nil {
		p.Infra = err.Error()
		return
	}
	foldStats(sp, p, &st)
	if fail != nil {
		c := sp
		c.Choices = fail.Choices
		p.Violate(fail.Sig, fmt.Sprintf("%s\nscenario: %s\nschedule (choice sequence): %v", fail.Msg, sp, fail.Choices), c)
	}
	for sig, n := range st.KnownHits {
		c := sp
		for i := 0; i < n; i++ {
			p.Violate(sig, "known finding observed in scenario "+sp.String(), c)
		}
	}
}

func foldStats(sp Spec, p *ev.Part, st *vsched.Stats) {
	p.Eval(int64(st.Executions + st.Cut))
	p.AddStates(int64(st.States), st.Steps, int64(st.Executions))
	p.AddCount("executions_complete", int64(st.Executions))
	p.AddCount("executions_cut_by_state_cache", int64(st.Cut))
	p.AddCount("scenarios", 1)
	if len(st.Outcomes) > 1 {
		p.AddCount("scenarios_with_several_outcomes", 1)
	}
	if st.MaxPoints > 0 {
		// every complete execution is a distinct choice sequence; it is non-trivial when the
		// scenario has at least one point where two threads (or two data alternatives) compete
		p.NontrivialN(int64(st.Executions))
	}
	if !st.Exhaustive {
		p.NotExhaustive("budget reached in " + sp.String())
		p.AddCount("scenarios_capped", 1)
	}
	p.Sample(map[string]interface{}{"scenario": sp, "executions": st.Executions, "cut": st.Cut, "states": st.States,
		"steps": st.Steps, "max_choice_points": st.MaxPoints, "threads": st.MaxThreads, "max_preemptions_seen": st.Preemptions, "outcomes": st.OutcomeList()})
}

func workerMain(file, out string) {
	b, err := os.ReadFile(file)
	if err != nil {
		fmt.Fprintln(os.Stderr, err)
		os.Exit(2)
	}
	var specs []Spec
	if err := json.Unmarshal(b, &specs); err != nil {
		fmt.Fprintln(os.Stderr, err)
		os.Exit(2)
	}
	p := ev.NewPart(specs[0].Prop, specs[0].Part, "")
	p.SetMaxSamples(2)
	for _, sp := range specs {
		runSpec(sp, p)
		if p.Infra != "" {
			p.Infra = sp.String() + ": " + p.Infra
			break
		}
	}
	if err := p.Write(out); err != nil {
		fmt.Fprintln(os.Stderr, err)
		os.Exit(2)
	}
}

func main() {
	prop := flag.String("prop", "", "property id")
	part := flag.String("part", "", "part name")
	tier := flag.String("tier", "quick", "quick|thorough")
	seed := flag.Int("seed", 0, "seed (only permutes the order in which scenarios are handed to workers)")
	out := flag.String("out", "", "part result file")
	replay := flag.String("replay", "", "replay file")
	worker := flag.String("worker", "", "internal: spec list file")
	list := flag.Bool("list", false, "print the scenario specs and exit")
	one := flag.String("one", "", "run a single spec given as JSON in this process (debugging)")
	racepass := flag.Int("racepass", 0, "free-running pass: run every scenario body this many times outside the scheduler (build with -race)")
	flag.Parse()
	runtime.GOMAXPROCS(1)
	debug.SetGCPercent(400) // executions allocate the library's 64 KiB buffers afresh: fewer collections, memory stays mapped // the scheduler hands a baton around; more Ps only add contention
	if *worker != "" {
		workerMain(*worker, *out)
		return
	}
	if *one != "" {
		var sp Spec
		if err := json.Unmarshal([]byte(*one), &sp); err != nil {
			fmt.Fprintln(os.Stderr, err)
			os.Exit(2)
		}
		p := ev.NewPart(sp.Prop, sp.Part, "")
		t0 := time.Now()
		runSpec(sp, p)
		p.Write("/dev/stdout")
		fmt.Fprintln(os.Stderr, time.Since(t0))
		return
	}
	if *replay != "" {
		doReplay(*prop, *part, *replay)
		return
	}
	d, ok := partDefs[*prop+"/"+*part]
	if !ok {
		fmt.Fprintf(os.Stderr, "vconc: no part %s/%s\n", *prop, *part)
		os.Exit(2)
	}
	specs := d.Gen(*tier)
	for i := range specs {
		specs[i].Prop, specs[i].Part = *prop, *part
	}
	if *list {
		for _, s := range specs {
			fmt.Println(s)
		}
		return
	}
	if *racepass > 0 {
		runtime.GOMAXPROCS(8)
		n, skipped := 0, 0
		for _, sp := range specs {
			if d.Build == nil {
				continue
			}
			sc := d.Build(sp, ev.NewPart(*prop, *part, *tier))
			if sc == nil {
				continue
			}
			for r := 0; r < *racepass; r++ {
				done := make(chan struct{})
				go func() {
					defer func() { recover(); close(done) }()
					sc.Body() // pass-through mode: real goroutines, channels and locks
				}()
				select {
				case <-done:
					n++
				case <-time.After(5 * time.Second):
					skipped++ // a body that blocks when running free (known deadlocks) is abandoned
					r = *racepass
				}
			}
		}
		fmt.Printf("racepass %s/%s: %d free-running executions of %d scenarios, %d abandoned\n", *prop, *part, n, len(specs), skipped)
		return
	}
	total := ev.NewPart(*prop, *part, *tier)
	total.Rule = d.Rule
	total.SetMaxSamples(8)
	// chunk the specs: many more chunks than workers so that long scenarios do not serialise
	nw := 16
	chunk := len(specs) / (nw * 8)
	if chunk < 1 {
		chunk = 1
	}
	var chunks [][]Spec
	for i := 0; i < len(specs); i += chunk {
		j := i + chunk
		if j > len(specs) {
			j = len(specs)
		}
		chunks = append(chunks, specs[i:j])
	}
	order := make([]int, len(chunks))
	for i := range order {
		order[i] = i
	}
	if *seed != 0 { // permute work order only; the set of scenarios is fixed
		x := uint64(*seed)*0x9e3779b97f4a7c15 + 1
		for i := len(order) - 1; i > 0; i-- {
			x ^= x << 13
			x ^= x >> 7
			x ^= x << 17
			j := int(x % uint64(i+1))
			order[i], order[j] = order[j], order[i]
		}
	}
	dir, _ := os.MkdirTemp(filepath.Dir(*out), "w")
	defer os.RemoveAll(dir)
	self, _ := os.Executable()
	results := make([]*ev.Part, len(chunks))
	var mu sync.Mutex
	var wg sync.WaitGroup
	next := 0
	for w := 0; w < nw; w++ {
		wg.Add(1)
		go func() {
			defer wg.Done()
			for {
				mu.Lock()
				if next >= len(order) {
					mu.Unlock()
					return
				}
				ci := order[next]
				next++
				mu.Unlock()
				in := filepath.Join(dir, fmt.Sprintf("in%d.json", ci))
				outf := filepath.Join(dir, fmt.Sprintf("out%d.json", ci))
				b, _ := json.Marshal(chunks[ci])
				os.WriteFile(in, b, 0o644)
				// a cap on the worker's address space: a runaway exploration dies with a Go
				// fatal error (reported as an infrastructure error) instead of exhausting the host
				cmd := exec.Command("/bin/sh", "-c", fmt.Sprintf("ulimit -v %d; exec %q -worker %q -out %q", 12<<20, self, in, outf))
				cmd.Stderr = os.Stderr
				err := cmd.Run()
				q, rerr := ev.ReadPart(outf)
				if err != nil || rerr != nil {
					q = ev.NewPart(*prop, *part, *tier)
					q.Infra = fmt.Sprintf("worker for %v failed: %v %v", chunks[ci][0], err, rerr)
				}
				results[ci] = q
				os.Remove(in)
				os.Remove(outf)
			}
		}()
	}
	wg.Wait()
	for _, q := range results {
		total.Merge(q)
	}
	sort.SliceStable(total.Violations, func(i, j int) bool { return total.Violations[i].Sig < total.Violations[j].Sig })
	if err := total.Write(*out); err != nil {
		fmt.Fprintln(os.Stderr, err)
		os.Exit(2)
	}
}

func doReplay(prop, part, file string) {
	b, err := os.ReadFile(file)
	if err != nil {
		fmt.Fprintln(os.Stderr, err)
		os.Exit(2)
	}
	var rf struct {
		Sig  string `json:"sig"`
		Case Spec   `json:"case"`
	}
	if err := json.Unmarshal(b, &rf); err != nil {
		fmt.Fprintln(os.Stderr, err)
		os.Exit(2)
	}
	sp := rf.Case
	if os.Getenv("VERIF_TRACE") != "" {
		vsched.ReplayTrace = os.Stdout
	}
	d := partDefs[prop+"/"+part]
	p := ev.NewPart(prop, part, "")
	if d.Build == nil {
		d.Direct(sp, p, func(string) bool { return false })
	} else if sc := func() *vsched.Scenario { vsched.PostRelease = sp.PostRel; return d.Build(sp, p) }(); sc == nil {
		d.Direct(sp, p, func(string) bool { return false })
	} else {
		o, div := vsched.Replay(sc, sp.Choices)
		if div != "" {
			fmt.Println("replay diverged:", div)
			os.Exit(2)
		}
		sig, msg, label := sc.Check(&o)
		fmt.Printf("replayed %d choices: outcome %q\n", len(sp.Choices), label)
		if sig != "" {
			p.Violate(sig, msg, sp)
		}
	}
	if p.NumViolations() > 0 {
		for _, v := range p.Violations {
			fmt.Printf("replay reproduces: %s\n  %s\n", v.Sig, v.Msg)
		}
		fmt.Printf("VIOLATION property=%s replay=%s\n", prop, file)
		os.Exit(1)
	}
	fmt.Println("replay: case passes on this tree")
}
