package main

import (
	"verif/rdr"
)

// C03 under read-ahead: the C02 histories with a cache attached before the first operation or
// after the first one; the read-ahead worker's Peek/keep run concurrently with cacheSwap.

func init() {
	register("C03", "sched", &PartDef{
		Rule:  "rd in {2,3}: all histories of length <=2 (length 3 for LRU(2) at rd=2 in quick; thorough: length <=3 for every plain cache kind x capacity at rd=2 on the first file) over {Read(2), Read(all), ReadByte, Seek(b0,0), Seek(b1,0), Seek(b2,0), Seek(b2,1)} with the cache attached up front, plus the same histories with SetCache after the first operation, for cache kinds {LRU,FIFO,Random} (thorough adds the StatsRecorder wrappers) x capacity {1,2} on file [3 1 2]+EOF (thorough adds [2 0 3]); all schedules up to preemption bound 2 with HB state caching (the length <=2 histories at rd=2 also with a scheduling point after every unlock), Random's eviction order being an explorer choice; oracle = flat model on every operation (bytes, EOF, LastChunk) + no deadlock, panic, ErrContaminatedCache or goroutine left after Close.",
		Gen:   c03gen,
		Build: readerBuild,
	})
}

func c03gen(tier string) []Spec {
	menu := []rdr.Op{{Op: "Read", N: 2}, {Op: "Read", N: 100}, {Op: "ReadByte"}, {Op: "Seek", Blk: 0}, {Op: "Seek", Blk: 1}, {Op: "Seek", Blk: 2}, {Op: "Seek", Blk: 2, Off: 1}}
	type cfg struct {
		kind   string
		cp, rd int
		maxLen int
		late   bool // also with SetCache after the first operation
	}
	var cfgs []cfg
	files := [][]int{{3, 1, 2}}
	if tier == "thorough" {
		files = append(files, []int{2, 0, 3})
		for _, k := range []string{"LRU", "FIFO", "Random", "Stats(LRU)", "Stats(FIFO)", "Stats(Random)"} {
			for _, cp := range []int{1, 2} {
				for _, rd := range []int{2, 3} {
					ml := 3
					if len(k) > 6 || rd == 3 {
						ml = 2 // length 3: plain kinds at rd=2 (sized to about two hours on 16 cores)
					}
					cfgs = append(cfgs, cfg{k, cp, rd, ml, true})
				}
			}
		}
	} else {
		cfgs = []cfg{{"LRU", 2, 2, 3, true}, {"Random", 1, 2, 2, false}, {"FIFO", 1, 2, 2, false}, {"LRU", 1, 3, 2, false}}
	}
	var specs []Spec
	for _, h := range histories(menu, 3) {
		for fi, lens := range files {
			for _, c := range cfgs {
				if len(h) > c.maxLen || len(h) == 3 && fi > 0 {
					continue // length 3 on the first file only
				}
				specs = append(specs, rspec(rParams{Lens: lens, Marker: true, RD: c.rd, Cache: c.kind, Cap: c.cp, Ops: h}, 2))
				if c.late && len(h) == 2 {
					late := append([]rdr.Op{h[0], {Op: "SetCache", Cache: c.kind, Cap: c.cp}}, h[1:]...)
					specs = append(specs, rspec(rParams{Lens: lens, Marker: true, RD: c.rd, Ops: late}, 2))
				}
			}
		}
	}
	// the length <=2 histories again with a scheduling point after every unlock (vsched.PostRelease):
	// a statement that follows a critical section instead of sitting inside it shows only there
	prKinds := []string{"LRU"}
	if tier == "thorough" {
		prKinds = []string{"LRU", "FIFO", "Random"}
	}
	for _, h := range histories(menu, 2) {
		for _, k := range prKinds {
			for _, cp := range []int{1, 2} {
				if tier != "thorough" && cp == 2 {
					continue
				}
				sp := rspec(rParams{Lens: files[0], Marker: true, RD: 2, Cache: k, Cap: cp, Ops: h}, 2)
				sp.PostRel = true
				specs = append(specs, sp)
			}
		}
	}
	return specs
}
