package main

import (
	"fmt"
	"sort"
	"strings"
)

// Reference model of the bgzf/cache implementations, written from the package documentation
// and the bgzf.Cache interface contract:
//   - a cache holds at most cap blocks, at most one per base;
//   - Put of a base already present, or of an unused block into a full cache, is refused and
//     returns the block itself; Put of a used block into a full cache evicts the policy's
//     victim; used blocks are queued at the front, unused ones at the back (evicted first);
//   - LRU and FIFO evict from the back of the queue, Random evicts an unused block if there is
//     one and any block otherwise;
//   - Get removes the block it returns ("The returned Block must be removed from the Cache");
//   - Peek reports presence and the following member's offset; Len/Cap report size/capacity;
//   - Resize(n) drops len-n blocks if n < len and sets the capacity; Drop(n) evicts n blocks
//     (or all) by the policy.
// The model is a boring list. A step takes the observed result and returns every model state
// the operation could have led to (Random's victim choice is nondeterministic).

const blockSpan = 100 // member size of every manufactured block; the model counts in members (base b is offset b*blockSpan)

type centry struct {
	ID   int
	Base int64
	Used bool
}

type cstats struct{ Gets, Misses, Puts, Retains, Evictions int }

type cmodel struct {
	Kind  string // "LRU", "FIFO", "Random"
	Stats bool   // wrapped in a StatsRecorder
	Cap   int
	List  []centry // front first; victim is the last element (Random: kept sorted by base)
	St    cstats
}

type cop struct {
	Op   string `json:"op"` // Put Get Peek Len Cap Resize Drop Free Stats
	Base int64  `json:"base,omitempty"`
	ID   int    `json:"id,omitempty"` // Put: identity of the block put
	Used bool   `json:"used,omitempty"`
	N    int    `json:"n,omitempty"`
}

func (o cop) String() string {
	switch o.Op {
	case "Put":
		return fmt.Sprintf("Put(blk%d base=%d used=%v)", o.ID, o.Base, o.Used)
	case "Get", "Peek":
		return fmt.Sprintf("%s(%d)", o.Op, o.Base)
	case "Resize", "Drop", "Free":
		return fmt.Sprintf("%s(%d)", o.Op, o.N)
	}
	return o.Op + "()"
}

type cres struct {
	ID       int    `json:"id"` // Put: evicted/returned block, Get: returned block; -1 = nil
	Retained bool   `json:"retained,omitempty"`
	Exists   bool   `json:"exists,omitempty"`
	Next     int64  `json:"next,omitempty"`
	N        int    `json:"n,omitempty"`
	OK       bool   `json:"ok,omitempty"`
	GotBase  int64  `json:"got_base,omitempty"` // Base() of the block returned by Get
	St       cstats `json:"stats,omitempty"`
}

func (r cres) String() string {
	return fmt.Sprintf("{id:%d retained:%v exists:%v next:%d n:%d ok:%v gotbase:%d}", r.ID, r.Retained, r.Exists, r.Next, r.N, r.OK, r.GotBase)
}

func (m cmodel) clone() cmodel {
	n := m
	n.List = append([]centry(nil), m.List...)
	return n
}

func (m cmodel) find(base int64) int {
	for i, e := range m.List {
		if e.Base == base {
			return i
		}
	}
	return -1
}

func (m cmodel) without(i int) cmodel {
	n := m.clone()
	n.List = append(n.List[:i], n.List[i+1:]...)
	return n
}

func (m cmodel) canon() cmodel {
	if m.Kind == "Random" {
		sort.Slice(m.List, func(i, j int) bool { return m.List[i].Base < m.List[j].Base })
	}
	return m
}

func (m cmodel) key() string {
	var sb strings.Builder
	fmt.Fprintf(&sb, "%s cap=%d [", m.Kind, m.Cap)
	for _, e := range m.List {
		fmt.Fprintf(&sb, "(%d b%d u%v)", e.ID, e.Base, e.Used)
	}
	sb.WriteString("]")
	if m.Stats {
		fmt.Fprintf(&sb, " %+v", m.St)
	}
	return sb.String()
}

// victims returns the indexes the policy may evict next.
func (m cmodel) victims() []int {
	if len(m.List) == 0 {
		return nil
	}
	if m.Kind != "Random" {
		return []int{len(m.List) - 1}
	}
	var un, all []int
	for i, e := range m.List {
		all = append(all, i)
		if !e.Used {
			un = append(un, i)
		}
	}
	if len(un) > 0 {
		return un
	}
	return all
}

// dropN returns every state reachable by evicting n blocks (or all) by the policy.
func (m cmodel) dropN(n int) []cmodel {
	if n <= 0 || len(m.List) == 0 {
		return []cmodel{m.clone()}
	}
	var res []cmodel
	seen := map[string]bool{}
	for _, v := range m.victims() {
		for _, r := range m.without(v).dropN(n - 1) {
			r = r.canon()
			if k := r.key(); !seen[k] {
				seen[k] = true
				res = append(res, r)
			}
		}
	}
	return res
}

// next returns the model states that op may lead to given that res was observed; none means
// the observation is not allowed by the model. why explains a rejection.
func (m cmodel) next(op cop, res cres) (out []cmodel, why string) {
	switch op.Op {
	case "Put":
		n := m.clone()
		if m.Stats {
			n.St.Puts++
		}
		if m.find(op.Base) >= 0 {
			if res.Retained || res.ID != op.ID {
				return nil, "base already cached: Put must refuse and return the block itself"
			}
			return []cmodel{n}, ""
		}
		if len(m.List) >= m.Cap {
			if !op.Used {
				if res.Retained || res.ID != op.ID {
					return nil, "full cache must refuse an unused block and return it"
				}
				return []cmodel{n}, ""
			}
			if !res.Retained {
				return nil, "used block put into a full cache must be retained (evicting the policy's victim)"
			}
			for _, v := range m.victims() {
				if m.List[v].ID == res.ID {
					x := n.without(v)
					if m.Stats {
						x.St.Retains++
						x.St.Evictions++
					}
					x.List = append([]centry{{op.ID, op.Base, op.Used}}, x.List...)
					out = append(out, x.canon())
				}
			}
			if len(out) == 0 {
				var vs []string
				for _, v := range m.victims() {
					vs = append(vs, fmt.Sprintf("blk%d", m.List[v].ID))
				}
				return nil, fmt.Sprintf("evicted blk%d is not the policy's victim (admissible: %s)", res.ID, strings.Join(vs, ","))
			}
			return out, ""
		}
		if !res.Retained || res.ID != -1 {
			return nil, "cache with a free slot must retain the block and evict nothing"
		}
		if m.Stats {
			n.St.Retains++
		}
		if op.Used {
			n.List = append([]centry{{op.ID, op.Base, op.Used}}, n.List...)
		} else {
			n.List = append(n.List, centry{op.ID, op.Base, op.Used})
		}
		return []cmodel{n.canon()}, ""
	case "Get":
		n := m.clone()
		if m.Stats {
			n.St.Gets++
		}
		i := m.find(op.Base)
		if i < 0 {
			if res.ID != -1 {
				return nil, "Get of an absent base must return nil"
			}
			if m.Stats {
				n.St.Misses++
			}
			return []cmodel{n}, ""
		}
		if res.ID != m.List[i].ID {
			return nil, fmt.Sprintf("Get must return the cached block blk%d", m.List[i].ID)
		}
		if res.GotBase != op.Base {
			return nil, fmt.Sprintf("Get(%d) returned a block whose base is %d", op.Base, res.GotBase)
		}
		return []cmodel{n.without(i)}, ""
	case "Peek":
		i := m.find(op.Base)
		if i < 0 {
			if res.Exists || res.Next != -1 {
				return nil, "Peek of an absent base must report (false,-1)"
			}
		} else if !res.Exists || res.Next != op.Base+1 {
			return nil, fmt.Sprintf("Peek of a cached base must report (true, offset of member %d)", op.Base+1)
		}
		return []cmodel{m.clone()}, ""
	case "Len":
		if res.N != len(m.List) {
			return nil, fmt.Sprintf("Len must be %d", len(m.List))
		}
		return []cmodel{m.clone()}, ""
	case "Cap":
		if res.N != m.Cap {
			return nil, fmt.Sprintf("Cap must be %d", m.Cap)
		}
		return []cmodel{m.clone()}, ""
	case "Resize":
		var base []cmodel
		if op.N < len(m.List) {
			base = m.dropN(len(m.List) - op.N)
		} else {
			base = []cmodel{m.clone()}
		}
		for i := range base {
			base[i].Cap = op.N
		}
		return base, ""
	case "Drop":
		return m.dropN(op.N), ""
	case "Free":
		empty := m.Cap - len(m.List)
		var base []cmodel
		if op.N <= empty {
			base = []cmodel{m.clone()}
		} else {
			base = m.dropN(op.N - empty)
		}
		for _, b := range base {
			if res.OK == (b.Cap-len(b.List) >= op.N) {
				out = append(out, b)
			}
		}
		if len(out) == 0 {
			return nil, fmt.Sprintf("Free(%d) reported %v", op.N, res.OK)
		}
		return out, ""
	case "Stats":
		if res.St != m.St {
			return nil, fmt.Sprintf("Stats must be %+v", m.St)
		}
		return []cmodel{m.clone()}, ""
	}
	panic("bad op " + op.Op)
}
