package main

import (
	"fmt"

	"github.com/biogo/hts/bgzf"
	"github.com/biogo/hts/vsched"

	"verif/ev"
	"verif/faultio"
	"verif/rdr"
)

// C09, reader side: every index k of the underlying Read and Seek calls of a workload fails.

var c09readerWorkloads = [][]rdr.Op{
	{{Op: "Read", N: 100}},
	{{Op: "Read", N: 2}, {Op: "Seek", Blk: 0}, {Op: "Read", N: 2}, {Op: "Seek", Blk: 2}, {Op: "Read", N: 100}},
	{{Op: "Seek", Blk: 2}, {Op: "Seek", Blk: 1}, {Op: "Seek", Blk: 0}, {Op: "Read", N: 1}},
	{{Op: "Seek", Blk: 2}, {Op: "Seek", Blk: 2}, {Op: "Read", N: 100}},
	{{Op: "Read", N: 1}, {Op: "Seek", Blk: 0, Off: 1}, {Op: "Seek", Blk: 0, Off: 1}, {Op: "Read", N: 2}},
}

// countCalls runs the workload fault-free with rd=1 in pass-through mode (no scheduler) and
// returns the number of underlying Read and Seek calls.
func countCalls(f *rdr.File, ops []rdr.Op, maxRead int) (reads, seeks int) {
	dev := &faultio.ReadSeeker{Data: f.Data, MaxRead: maxRead}
	r, err := bgzf.NewReader(dev, 1)
	if err != nil {
		panic(err)
	}
	for _, op := range ops {
		rdr.Do(f, r, op)
	}
	r.Close()
	return dev.Reads, dev.Seeks
}

func init() {
	c09readerSpecs = func(tier string) []Spec {
		var specs []Spec
		lens := []int{3, 1, 2}
		f := rdr.MakeFile(fmt.Sprint(lens), lens, true)
		const maxRead = 64
		bound := 2
		if tier == "thorough" {
			bound = 3
		}
		type cfg struct {
			rd    int
			cache string
		}
		cfgs := []cfg{{1, ""}, {2, ""}, {3, ""}, {1, "LRU"}}
		for wi, w := range c09readerWorkloads {
			kr, ks := countCalls(f, w, maxRead)
			for _, c := range cfgs {
				if tier == "quick" && c.rd == 3 && wi >= 2 {
					continue
				}
				base := rParams{Lens: lens, Marker: true, RD: c.rd, Ops: w, MaxRead: maxRead}
				if c.cache != "" {
					base.Cache, base.Cap = c.cache, 2
				}
				b := bound
				if c.rd == 1 {
					b = -1 // tiny: explore all schedules
				}
				for k := 1; k <= kr+1; k++ {
					for _, partial := range []bool{false, true} {
						for _, once := range []bool{false, true} {
							if tier == "quick" && partial && once {
								continue
							}
							p := base
							p.ReadFault = faultio.Fault{At: k, Partial: partial, Once: once}
							specs = append(specs, rspec(p, b))
						}
					}
				}
				for k := 1; k <= ks; k++ {
					for _, once := range []bool{false, true} {
						p := base
						p.SeekFault = faultio.Fault{At: k, Once: once}
						specs = append(specs, rspec(p, b))
					}
				}
			}
		}
		return specs
	}
	c09readerBuild = func(sp Spec, p *ev.Part) *vsched.Scenario { return readerBuild(sp, p) }
}
