package main

import (
	"bytes"
	"crypto/sha256"
	"encoding/hex"
	"fmt"
	"strings"
	"sync"

	"github.com/biogo/hts/bgzf"
	"github.com/biogo/hts/vsched"

	"verif/ev"
	"verif/faultio"
	"verif/refimpl"
)

// Writer scenarios shared by C01(b), C08, C09 and C12: a script of API calls on a bgzf.Writer
// over a device double whose Write contains scheduling points, explored under all schedules.

type wop struct {
	Op string `json:"op"` // W write, F flush, A wait, C close
	N  int    `json:"n,omitempty"`
}

func (o wop) String() string {
	if o.Op == "W" {
		return fmt.Sprintf("W%d", o.N)
	}
	return o.Op
}

type wParams struct {
	Script []wop         `json:"script"`
	WC     int           `json:"wc"`
	Level  int           `json:"level"`
	Fault  faultio.Fault `json:"fault"`
	Oracle string        `json:"oracle"`         // "c12", "c09", "c08", "c01"
	Rand   bool          `json:"rand,omitempty"` // incompressible position-coded content
}

func scriptString(s []wop) string {
	var p []string
	for _, o := range s {
		p = append(p, o.String())
	}
	return strings.Join(p, " ")
}

func parseScript(s string) []wop {
	var ops []wop
	for _, f := range strings.Fields(s) {
		if f[0] == 'W' {
			n := 0
			fmt.Sscanf(f[1:], "%d", &n)
			ops = append(ops, wop{Op: "W", N: n})
		} else {
			ops = append(ops, wop{Op: f})
		}
	}
	return ops
}

// pattern is position coded: byte i identifies offset i (mod 251), so loss, duplication and
// reordering of any region are visible.
func content(rand bool, off, n int) []byte {
	if !rand {
		return pattern(off, n)
	}
	b := make([]byte, n)
	for i := range b {
		x := uint64(off+i)/8*0x9e3779b97f4a7c15 + 0x1234567
		x ^= x >> 29
		x *= 0xbf58476d1ce4e5b9
		x ^= x >> 32
		b[i] = byte(x >> (8 * uint((off+i)%8)))
	}
	return b
}

func pattern(off, n int) []byte {
	b := make([]byte, n)
	for i := range b {
		b[i] = byte((off+i)%251) + 1
	}
	return b
}

type wEvent struct {
	K   string // "call", "ret", "dev"
	Op  string
	N   int // call W: bytes offered; ret W: bytes accepted; dev: len(Data) after the write
	Err bool
}

type wRun struct {
	mu       sync.Mutex // the log is shared by the caller and the emitter goroutine (matters only when running free)
	events   []wEvent
	dev      *faultio.Writer
	closeErr error
	offered  int
}

func (r *wRun) log(e wEvent) {
	r.mu.Lock()
	r.events = append(r.events, e)
	r.mu.Unlock()
}

func writerBody(pr wParams, r *wRun) func() {
	return func() {
		r.events, r.dev, r.closeErr, r.offered = nil, nil, nil, 0
		dev := &faultio.Writer{Hook: vsched.Yield, Fault: pr.Fault}
		dev.After = func(w *faultio.Writer) {
			r.log(wEvent{K: "dev", N: len(w.Data), Err: w.LastFailed})
		}
		r.dev = dev
		w, err := bgzf.NewWriterLevel(dev, pr.Level, pr.WC)
		if err != nil {
			panic(err)
		}
		for _, op := range pr.Script {
			r.log(wEvent{K: "call", Op: op.Op, N: op.N})
			switch op.Op {
			case "W":
				n, err := w.Write(content(pr.Rand, r.offered, op.N))
				r.offered += op.N
				r.log(wEvent{K: "ret", Op: "W", N: n, Err: err != nil})
			case "F":
				err := w.Flush()
				r.log(wEvent{K: "ret", Op: "F", Err: err != nil})
			case "A":
				err := w.Wait()
				r.log(wEvent{K: "ret", Op: "A", Err: err != nil})
			case "C":
				r.closeErr = w.Close()
				r.log(wEvent{K: "ret", Op: "C", Err: r.closeErr != nil})
			}
		}
	}
}

// writerCheck evaluates the oracle named in pr on one execution.
func writerCheck(pr wParams, r *wRun, ref *[]byte) func(o *vsched.Outcome) (string, string, string) {
	return func(o *vsched.Outcome) (sig, msg, label string) {
		if s, m := vsched.StdVerdict(o); s != "" && !(o.Leaked && !closed(pr.Script)) {
			// a script that never closes the writer legitimately leaves its goroutine behind
			return s, m, s
		}
		data := r.dev.Data
		h := sha256.Sum256(data)
		label = fmt.Sprintf("out=%s closeErr=%v", hex.EncodeToString(h[:6]), r.closeErr != nil)
		expected := content(pr.Rand, 0, r.offered)
		faulty := pr.Fault.At != 0 && r.dev.Failed > 0
		// ---- device content: whole members decoding to a prefix, at every write return
		tornFrom := -1 // a partial (torn) transfer by the device itself is not the writer's doing
		prevLen := 0
		boundaries := map[int]int{0: 0} // stream offset -> decoded length
		parseUpTo := len(data)
		for _, e := range r.events {
			if e.K == "dev" {
				if e.Err && tornFrom < 0 {
					tornFrom = prevLen
				}
				prevLen = e.N
			}
		}
		if tornFrom >= 0 {
			parseUpTo = tornFrom
		}
		ms, partial, err := refimpl.ParseStream(data[:parseUpTo])
		if err != nil {
			return "device-content-not-bgzf", fmt.Sprintf("bytes delivered to the underlying writer are not a sequence of BGZF members: %v", err), label
		}
		if partial {
			return "partial-block-on-device", "bytes delivered to the underlying writer end inside a member", label
		}
		dec := 0
		for _, m := range ms {
			if len(m.Payload) > refimpl.MaxPayload {
				return "oversize-payload", "member payload exceeds 65280 bytes", label
			}
			dec += len(m.Payload)
			boundaries[int(m.Off)+m.Size] = dec
		}
		got := refimpl.Payloads(ms)
		if len(got) > len(expected) || !bytes.Equal(got, expected[:len(got)]) {
			return "device-content-not-a-prefix", fmt.Sprintf("decoded device content (%d bytes) is not a prefix of the %d bytes written (first difference at %d)", len(got), len(expected), firstDiff(got, expected)), label
		}
		// ---- walk the history
		offered, flushMark, durable, devLen := 0, -1, 0, 0
		errSeen := false
		for i, e := range r.events {
			switch {
			case e.K == "call" && e.Op == "W":
				offered += e.N
			case e.K == "dev":
				if tornFrom >= 0 && e.N > tornFrom {
					if !e.Err && e.N > devLen {
						return "write-after-failed-write", fmt.Sprintf("event %d: the writer delivered more bytes after an underlying write had failed (the stream now has a hole)", i), label
					}
					devLen = e.N
					continue
				}
				devLen = e.N
				d, ok := boundaries[e.N]
				if !ok {
					return "partial-block-at-write-return", fmt.Sprintf("event %d: after an underlying Write returned, the %d bytes delivered do not end at a member boundary", i, e.N), label
				}
				if d > offered {
					return "device-ahead-of-writes", fmt.Sprintf("event %d: device holds %d decoded bytes but only %d were written so far", i, d, offered), label
				}
				durable = d
			case e.K == "ret" && e.Op == "F" && !e.Err:
				flushMark = offered
			case e.K == "ret" && e.Op == "A" && !e.Err:
				if flushMark >= 0 && durable < flushMark {
					return "flush-wait-not-durable", fmt.Sprintf("event %d: Flush then Wait returned nil but only %d of the %d bytes written before the Flush have reached the underlying writer", i, durable, flushMark), label
				}
			case e.K == "ret" && e.Op == "C" && !e.Err:
				if durable < offered {
					return "close-not-durable", fmt.Sprintf("Close returned nil but only %d of %d bytes reached the underlying writer", durable, offered), label
				}
				if !refimpl.HasMarker(data) {
					return "close-without-marker", "Close returned nil but the stream does not end with the EOF marker", label
				}
			}
			if e.K == "ret" {
				if errSeen && !e.Err {
					return "error-forgotten:" + e.Op, fmt.Sprintf("event %d: %s returned nil after an earlier call had already reported the write error", i, e.Op), label
				}
				if e.Err {
					errSeen = true
				}
			}
		}
		if faulty && r.closeErr == nil && closed(pr.Script) {
			return "close-swallowed-write-error", "an underlying Write failed but Close returned nil", label
		}
		if r.closeErr != nil && closed(pr.Script) && refimpl.HasMarker(data) && len(ms) > 0 && tornFrom < 0 && endsWithMarkerAfterData(ms) {
			return "marker-after-failed-close", "Close returned an error but the stream ends with the EOF marker", label
		}
		if !closed(pr.Script) && len(ms) > 0 && len(ms[len(ms)-1].Payload) == 0 && refimpl.HasMarker(data) {
			return "marker-without-close", "the stream ends with the EOF marker although the writer was not closed", label
		}
		// ---- schedule independence of the bytes (C08) for fault-free runs
		if !faulty && ref != nil {
			if *ref == nil {
				*ref = append([]byte{}, data...)
			} else if !bytes.Equal(*ref, data) {
				return "output-depends-on-schedule", fmt.Sprintf("output bytes differ between schedules (first difference at offset %d)", firstDiff(*ref, data)), label
			}
		}
		return "", "", label
	}
}

func endsWithMarkerAfterData(ms []*refimpl.Member) bool {
	return len(ms[len(ms)-1].Payload) == 0
}

func closed(s []wop) bool { return len(s) > 0 && s[len(s)-1].Op == "C" }

func firstDiff(a, b []byte) int {
	n := len(a)
	if len(b) < n {
		n = len(b)
	}
	for i := 0; i < n; i++ {
		if a[i] != b[i] {
			return i
		}
	}
	return n
}

func writerBuild(sp Spec, p *ev.Part) *vsched.Scenario {
	var pr wParams
	mustParams(sp, &pr)
	r := &wRun{}
	var ref []byte
	return &vsched.Scenario{Body: writerBody(pr, r), Check: writerCheck(pr, r, &ref)}
}

func wspec(script string, wc, level, bound int, fault faultio.Fault, oracle string) Spec {
	return Spec{Kind: "writer", Params: params(wParams{Script: parseScript(script), WC: wc, Level: level, Fault: fault, Oracle: oracle}), Bound: bound}
}
