package main

import (
	"verif/rdr"
)

// C02 under read-ahead (rd>1): every history over a reduced menu up to a length, every
// schedule of the consumer, the read-ahead worker and the decompressor goroutines up to the
// preemption bound, each observation compared with the flat model.

func init() {
	register("C02", "sched", &PartDef{
		Rule:  "rd in {2,3}, no cache: all histories of length <=3 (quick; length 3 on the first file at rd=2) / <=4 (thorough; length 4 on the first file at rd=2) over {Seek(b0,1), Seek(b2,0), Seek(b1,len), Read(2), Read(all), ReadByte, Blocked=true} ending in an observing operation, then Close, on files [3 1 2]+EOF and [2 0 3] (no marker); all schedules up to preemption bound 2 (thorough: 3 for length<=2 and for length 3 on the first file at rd=2) with HB state caching; oracle = flat model on every operation + no deadlock, panic or goroutine left after Close. Non-trivial: executions with at least one scheduling choice.",
		Gen:   c02gen,
		Build: readerBuild,
	})
}

func c02menu() []rdr.Op {
	return []rdr.Op{
		{Op: "Read", N: 2}, {Op: "Read", N: 100}, {Op: "ReadByte"},
		{Op: "Seek", Blk: 0, Off: 1}, {Op: "Seek", Blk: 2, Off: 0}, {Op: "Seek", Blk: 1, Off: -1},
		{Op: "Blocked", On: true},
	}
}

// fixOffsets resolves Off==-1 to the block's length.
func fixOffsets(h []rdr.Op, lens []int) []rdr.Op {
	out := append([]rdr.Op(nil), h...)
	for i := range out {
		if out[i].Op == "Seek" && out[i].Off < 0 {
			out[i].Off = lens[out[i].Blk]
		}
	}
	return out
}

func c02gen(tier string) []Spec {
	var specs []Spec
	files := []struct {
		lens   []int
		marker bool
	}{{[]int{3, 1, 2}, true}, {[]int{2, 0, 3}, false}}
	maxLen := 3
	if tier == "thorough" {
		maxLen = 4
	}
	for _, h := range histories(c02menu(), maxLen) {
		if !useful(h) {
			continue
		}
		for fi, f := range files {
			for _, rd := range []int{2, 3} {
				if tier == "quick" && len(h) == 3 && (fi == 1 || rd == 3) {
					continue
				}
				if len(h) == 4 && (fi == 1 || rd == 3) {
					continue // length 4: first file, rd=2 (sized to about an hour on 16 cores)
				}
				bound := 2
				if tier == "thorough" && (len(h) <= 2 || len(h) == 3 && fi == 0 && rd == 2) {
					bound = 3
				}
				specs = append(specs, rspec(rParams{Lens: f.lens, Marker: f.marker, RD: rd, Ops: fixOffsets(h, f.lens)}, bound))
			}
		}
	}
	return specs
}
