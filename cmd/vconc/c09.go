package main

import (
	"github.com/biogo/hts/vsched"

	"verif/ev"
	"verif/faultio"
)

// C09: I/O faults never hang and are never swallowed. For every workload and configuration the
// fault-free run numbers the underlying calls 1..K; for every k<=K (and both fault modes) the
// k-th call fails, and the resulting scenario is explored under every schedule within the bound.

func init() {
	register("C09", "faults", &PartDef{
		Rule:  "writer workloads {W1 F W1 F W1 F A C; W1 F W1 F W1 C; W2 F W1 A W1 F W1 C; W1 F A W1 F A C; W65281 C (two real blocks)} x wc 1..3 x fault index k=1..K (K = number of underlying Write calls of the fault-free run, found by a counting run) x mode {error, error after half the bytes} x {persistent, one-shot}; reader workloads {Read(all); Read(2) Seek(b0) Read(2) Seek(b2) Read(all); Seek(b2) Seek(b1) Seek(b0) Read(1); Seek(b2) Seek(b2) Read(all); Read(1) Seek(b0,1) Seek(b0,1) Read(2)} then Close on blocks [3 1 2]+EOF over a device doing 64-byte short reads, x {rd 1,2,3 without cache; rd 1 with LRU(2)} x fault index k=1..K+1 over the underlying Read calls (error / error after half the bytes; persistent / one-shot) and over the Seek calls (K from a fault-free counting run). Each cell: all schedules up to the preemption bound (quick 2, thorough 3) with the faulty device call containing scheduling points. Oracle: no deadlock/livelock (every API call incl. Close returns), no goroutine left after Close, no panic; writer: Close reports the error, once reported every later call reports it, device content (before the torn write) is whole blocks decoding to a prefix, nothing is delivered after a failed write; reader: bytes returned equal the flat model at their position, io.EOF only at the true end. Non-trivial: cells in which the fault was actually hit.",
		Gen:   c09gen,
		Build: c09build,
	})
}

var c09writerScripts = []string{
	"W1 F W1 F W1 F A C",
	"W1 F W1 F W1 C",
	"W2 F W1 A W1 F W1 C",
	"W1 F A W1 F A C",
}

// underlying writes of the fault-free run: one per non-empty block plus Close's own block and the marker.
func countDevWrites(script string) int {
	ops := parseScript(script)
	n, pending := 0, 0
	for _, o := range ops {
		switch o.Op {
		case "W":
			pending += o.N
			for pending >= 65280 {
				n++
				pending -= 65280
			}
		case "F":
			if pending > 0 {
				n++
				pending = 0
			}
		case "C":
			n += 2 // the active block (possibly empty) and the EOF marker
		}
	}
	return n
}

func c09gen(tier string) []Spec {
	var specs []Spec
	bound := 2
	if tier == "thorough" {
		bound = 3
	}
	scripts := append([]string{}, c09writerScripts...)
	for wc := 1; wc <= 3; wc++ {
		for si, s := range scripts {
			K := countDevWrites(s)
			for k := 1; k <= K+1; k++ {
				for _, partial := range []bool{false, true} {
					for _, once := range []bool{false, true} {
						if tier == "quick" && once && partial {
							continue
						}
						if tier == "quick" && si == 2 && wc == 3 {
							continue
						}
						if k == K+1 && (partial || once) {
							continue // the control cell: no fault is hit
						}
						sp := wspec(s, wc, 1, bound, faultio.Fault{At: k, Partial: partial, Once: once}, "c09")
						sp.BudgetS = 300
						specs = append(specs, sp)
					}
				}
			}
		}
		for k := 1; k <= 4; k++ {
			sp := wspec("W65281 C", wc, 1, 1, faultio.Fault{At: k}, "c09")
			sp.BudgetS = 300
			specs = append(specs, sp)
		}
	}
	specs = append(specs, c09readerSpecs(tier)...)
	return specs
}

func c09build(sp Spec, p *ev.Part) *vsched.Scenario {
	if sp.Kind == "writer" {
		return writerBuild(sp, p)
	}
	return c09readerBuild(sp, p)
}

// filled in by reader.go
var c09readerSpecs = func(tier string) []Spec { return nil }
var c09readerBuild = func(sp Spec, p *ev.Part) *vsched.Scenario { return nil }
