package main

import (
	"bytes"
	"crypto/sha256"
	"encoding/hex"
	"fmt"

	"github.com/biogo/hts/bam"
	"github.com/biogo/hts/sam"
	"github.com/biogo/hts/vsched"

	"verif/ev"
	"verif/faultio"
	"verif/refimpl"
)

type bamWParams struct {
	WC int `json:"wc"`
}

// bamWriterBuild: bam.NewWriter (header + internal Flush/Wait), two records, Close, over the
// scheduling device double; every device snapshot must be whole BGZF blocks decoding to a
// prefix of the final BAM stream, and the header must be on the device when NewWriter returns.
func bamWriterBuild(sp Spec, p *ev.Part) *vsched.Scenario {
	var pr bamWParams
	mustParams(sp, &pr)
	var dev *faultio.Writer
	var afterNew, hdrLen int
	var closeErr, newErr error
	var ref []byte
	body := func() {
		dev = &faultio.Writer{Hook: vsched.Yield}
		afterNew, closeErr, newErr = -1, nil, nil
		ref1, _ := sam.NewReference("chr1", "", "", 1000, nil, nil)
		h, _ := sam.NewHeader(nil, []*sam.Reference{ref1})
		var hb bytes.Buffer
		h.EncodeBinary(&hb)
		hdrLen = hb.Len()
		w, err := bam.NewWriter(dev, h, pr.WC)
		if err != nil {
			newErr = err
			return
		}
		afterNew = len(dev.Data)
		for i := 0; i < 2; i++ {
			r, _ := sam.NewRecord(fmt.Sprintf("r%d", i), ref1, nil, 10*i, -1, 0, 30, []sam.CigarOp{sam.NewCigarOp(sam.CigarMatch, 4)}, []byte("ACGT"), []byte{30, 31, 32, 33}, nil)
			if err := w.Write(r); err != nil {
				closeErr = err
			}
		}
		if err := w.Close(); err != nil {
			closeErr = err
		}
	}
	check := func(o *vsched.Outcome) (string, string, string) {
		if s, m := vsched.StdVerdict(o); s != "" {
			return "bam:" + s, m, s
		}
		h := sha256.Sum256(dev.Data)
		label := "out=" + hex.EncodeToString(h[:6])
		if newErr != nil || closeErr != nil {
			return "bam:unexpected-error", fmt.Sprintf("NewWriter/Write/Close failed without any fault: %v %v", newErr, closeErr), label
		}
		ms, partial, err := refimpl.ParseStream(dev.Data)
		if err != nil || partial {
			return "bam:device-content-not-bgzf", fmt.Sprintf("final device content is not whole BGZF members: %v partial=%v", err, partial), label
		}
		bound := map[int]int{0: 0}
		dec := 0
		for _, m := range ms {
			dec += len(m.Payload)
			bound[int(m.Off)+m.Size] = dec
		}
		for i, l := range dev.Lens {
			if _, ok := bound[l]; !ok {
				return "bam:partial-block-at-write-return", fmt.Sprintf("after underlying write %d the %d bytes delivered do not end at a member boundary", i+1, l), label
			}
		}
		d, ok := bound[afterNew]
		if !ok || d < hdrLen {
			return "bam:header-not-durable", fmt.Sprintf("bam.NewWriter returned but only %d of the %d header bytes are on the device", d, hdrLen), label
		}
		if !refimpl.HasMarker(dev.Data) {
			return "bam:close-without-marker", "Close returned nil but there is no EOF marker", label
		}
		if ref == nil {
			ref = append([]byte{}, dev.Data...)
		} else if !bytes.Equal(ref, dev.Data) {
			return "bam:output-depends-on-schedule", "BAM output bytes differ between schedules", label
		}
		return "", "", label
	}
	return &vsched.Scenario{Body: body, Check: check}
}
