package main

import (
	"bytes"
	"encoding/json"
	"fmt"
	"io"
	"math"
	"strings"

	"github.com/biogo/hts/bam"
	"github.com/biogo/hts/sam"

	"verif/refimpl"
)

type c06case struct {
	Kind  string       `json:"kind"` // "record" or "reader"
	Rec   *refimpl.Rec `json:"rec,omitempty"`
	Input string       `json:"input,omitempty"`
}

// normH lower-cases the value of H fields: hex digits may be written in either case.
func normLine(s string) string {
	fs := strings.Split(s, "\t")
	for i := 11; i < len(fs); i++ {
		if len(fs[i]) > 5 && fs[i][3] == 'H' {
			fs[i] = fs[i][:5] + strings.ToLower(fs[i][5:])
		}
	}
	return strings.Join(fs, "\t")
}

func c06domain(thorough bool) []refimpl.Rec {
	var out []refimpl.Rec
	minimal := baseRec("r")
	maximal := baseRec(strings.Repeat("m", 254))
	maximal.Flags, maximal.MapQ, maximal.TLen, maximal.MateRefID, maximal.MatePos, maximal.Pos = 0xfff, 255, math.MaxInt32, 1, 4999, 1<<29-1
	maximal.Cigar = []uint32{cig('H', 3), cig('S', 2), cig('M', 290), cig('I', 4), cig('D', 5), cig('N', 6), cig('P', 1), cig('=', 2), cig('X', 2)}
	maximal.Seq, maximal.Qual = seqOf(300), qualOf(300)
	maximal.Aux = []refimpl.AuxField{{Tag: "NM", Type: 'i', Int: 70000}, {Tag: "ZZ", Type: 'Z', Str: "tail"}}
	for _, ctx := range []refimpl.Rec{minimal, maximal} {
		out = append(out, ctx)
		for _, n := range []string{"r", "read/1", "a!~#", strings.Repeat("n", 254)} {
			r := ctx
			r.Name = n
			out = append(out, r)
		}
		for _, f := range []int{0, 4, 0x1 | 0x2 | 0x40, 0x10, 0xfff, 0xffff} {
			r := ctx
			r.Flags = f
			out = append(out, r)
		}
		for _, rp := range [][2]int{{0, 100}, {1, 0}, {-1, -1}, {0, 1<<29 - 1}, {0, 1<<31 - 2}} {
			for _, mt := range [][2]int{{-1, -1}, {0, 7}, {1, 4999}} {
				r := ctx
				r.RefID, r.Pos, r.MateRefID, r.MatePos = rp[0], rp[1], mt[0], mt[1]
				out = append(out, r)
			}
		}
		for _, mq := range []int{0, 1, 255} {
			r := ctx
			r.MapQ = mq
			out = append(out, r)
		}
		for _, tl := range []int{0, -5, math.MaxInt32, math.MinInt32} {
			r := ctx
			r.TLen = tl
			out = append(out, r)
		}
		type cs struct {
			cg  []uint32
			seq string
		}
		for _, x := range []cs{{nil, ""}, {nil, "ACGT"}, {[]uint32{cig('M', 4)}, "ACGT"}, {[]uint32{cig('M', 4)}, ""}, {[]uint32{cig('S', 2), cig('M', 2)}, "ACGT"},
			{[]uint32{cig('M', 1), cig('I', 1), cig('M', 1), cig('D', 1), cig('M', 1)}, "ACGT"[:4]}, {[]uint32{cig('H', 3), cig('M', 2)}, "AC"},
			{[]uint32{cig('M', 1<<28-1), cig('M', 1)}, ""}, {[]uint32{cig('M', 16)}, "=ACMGRSVTWYHKDBN"}, {[]uint32{cig('M', 3)}, "acg"}} {
			for _, q := range []bool{false, true} {
				r := ctx
				r.Cigar, r.Seq = x.cg, x.seq
				if len(x.cg) == 5 {
					r.Seq = "ACGT"
				}
				r.Qual = nil
				if q && len(r.Seq) > 0 {
					r.Qual = qualOf(len(r.Seq))
				}
				if strings.ToUpper(r.Seq) != r.Seq {
					continue // lower case bases do not survive the 4-bit encoding: not "expressible" unchanged
				}
				out = append(out, r)
			}
		}
		r := ctx
		r.Seq, r.Qual, r.Cigar = "ACGT", []byte{0, 1, 92, 93}, []uint32{cig('M', 4)}
		out = append(out, r)
		// records whose BAM body is exactly 4095, 4096 and 4097 bytes (the reader's inline buffer)
		for _, body := range []int{4095, 4096, 4097} {
			for nl := 1; nl <= 4; nl++ {
				r := ctx
				r.Name = strings.Repeat("k", nl)
				r.Aux = nil
				r.Cigar = []uint32{cig('M', 1)} // one operation; its length is set below
				l := seqLenForBody(r, body)
				if l < 1 {
					continue
				}
				r.Seq, r.Qual = seqOf(l), qualOf(l)
				r.Cigar = []uint32{cig('M', l)}
				if len(refimpl.BAMRecord(&r))-4 == body {
					out = append(out, r)
					break
				}
			}
		}
		for _, l := range []int{5000, 4100} { // records larger than a 4 KiB buffer, in SAM and in BAM
			r := ctx
			r.Seq, r.Qual, r.Cigar = seqOf(l), qualOf(l), []uint32{cig('M', l)}
			out = append(out, r)
		}
		var auxs [][]refimpl.AuxField
		auxs = append(auxs, nil)
		for _, f := range auxAlphabet() {
			auxs = append(auxs, []refimpl.AuxField{f})
		}
		for _, v := range []int64{math.MinInt32, -32769, -32768, -129, -128, -1, 0, 127, 128, 255, 256, 32767, 32768, 65535, 65536, math.MaxInt32, math.MaxInt32 + 1, math.MaxUint32} {
			t := byte('i')
			if v > math.MaxInt32 {
				t = 'I'
			}
			auxs = append(auxs, []refimpl.AuxField{{Tag: "NM", Type: t, Int: v}})
		}
		al := auxAlphabet()
		for i := range al {
			if thorough || i%4 == 0 {
				b := al[(i*5+2)%len(al)]
				b.Tag = "Y" + b.Tag[1:]
				auxs = append(auxs, []refimpl.AuxField{al[i], b})
			}
		}
		for _, a := range auxs {
			r := ctx
			r.Aux = a
			out = append(out, r)
		}
	}
	if thorough {
		// every ordered pair of aux fields of the alphabet (the second re-tagged), minimal context
		al := auxAlphabet()
		for i := range al {
			for j := range al {
				b := al[j]
				b.Tag = "Y" + b.Tag[1:]
				r := minimal
				r.Aux = []refimpl.AuxField{al[i], b}
				out = append(out, r)
			}
		}
		// the full product of the scalar dimensions, minimal context
		for _, n := range []string{"r", "read/1", "a!~#", strings.Repeat("n", 254)} {
			for _, f := range []int{0, 4, 0x1 | 0x2 | 0x40, 0x10, 0xfff, 0xffff} {
				for _, rp := range [][2]int{{0, 100}, {1, 0}, {-1, -1}, {0, 1<<29 - 1}, {0, 1<<31 - 2}} {
					for _, mt := range [][2]int{{-1, -1}, {0, 7}, {1, 4999}} {
						for _, mq := range []int{0, 255} {
							for _, tl := range []int{0, -5, math.MaxInt32, math.MinInt32} {
								r := minimal
								r.Name, r.Flags, r.RefID, r.Pos, r.MateRefID, r.MatePos, r.MapQ, r.TLen = n, f, rp[0], rp[1], mt[0], mt[1], mq, tl
								out = append(out, r)
							}
						}
					}
				}
			}
		}
	}
	return out
}

// numerically-equal comparison of aux fields (integer types may narrow through SAM text)
func auxNumeric(a sam.Aux) string {
	switch a.Type() {
	case 'c', 'C', 's', 'S', 'i', 'I':
		return fmt.Sprintf("int:%d", a.Value())
	}
	return auxOf(a)
}

func auxNumericSpec(f refimpl.AuxField) string {
	switch f.Type {
	case 'c', 'C', 's', 'S', 'i', 'I':
		return fmt.Sprintf("int:%d", f.Int)
	}
	return auxValueString(f)
}

func c06record(c *Ctx, spec refimpl.Rec) {
	cas := c06case{Kind: "record", Rec: &spec}
	auxClass := "noaux"
	if len(spec.Aux) > 0 {
		auxClass = fmt.Sprintf("aux-%c", spec.Aux[0].Type)
		if spec.Aux[0].Type == 'B' && len(spec.Aux[0].Ints)+len(spec.Aux[0].Flts) == 0 {
			auxClass += "-empty"
		}
	}
	guard(c, "record:"+auxClass, cas, func() {
		h := recHeader()
		sr, err := toSam(&spec, h)
		if err != nil {
			c.Violate("record:build-error:"+auxClass, fmt.Sprintf("building %s: %v", describeRec(&spec), err), cas)
			return
		}
		var lines [2]string
		for fi, ff := range []int{sam.FlagDecimal, sam.FlagHex} {
			b, err := sr.MarshalSAM(ff)
			if err != nil {
				c.Violate("record:MarshalSAM-error:"+auxClass, fmt.Sprintf("MarshalSAM of %s: %v", describeRec(&spec), err), cas)
				return
			}
			lines[fi] = string(b)
			want := refimpl.SAMLine(&spec, recRefs, "dx"[fi])
			if normLine(lines[fi]) != normLine(want) {
				a, w := strings.Split(lines[fi], "\t"), strings.Split(want, "\t")
				field := "field-count"
				for i := 0; i < len(a) && i < len(w); i++ {
					if normLine(strings.Join(append(make([]string, 11), a[i]), "\t")) != normLine(strings.Join(append(make([]string, 11), w[i]), "\t")) {
						field = fmt.Sprintf("field%d", i+1)
						if i >= 11 {
							field = auxClass
						}
						break
					}
				}
				c.Violate("record:format-differs:"+field, fmt.Sprintf("MarshalSAM gives\n  %q\nthe specification formatter\n  %q", clipStr(lines[fi]), clipStr(want)), cas)
				return
			}
			// parse back
			var r2 sam.Record
			if err := r2.UnmarshalSAM(h, b); err != nil {
				c.Violate("record:UnmarshalSAM-error:"+auxClass, fmt.Sprintf("the record's own line does not parse: %v\n  %q", err, clipStr(lines[fi])), cas)
				return
			}
			b2, err := r2.MarshalSAM(ff)
			if err != nil || string(b2) != lines[fi] {
				c.Violate("record:reformat-differs:"+auxClass, fmt.Sprintf("line parsed and formatted again differs (err %v):\n  %q\n  %q", err, clipStr(lines[fi]), clipStr(string(b2))), cas)
				return
			}
			want2 := spec
			want2.Aux = nil
			if msg := compareRecord(&want2, &r2, h, skipAux); msg != "" {
				c.Violate("record:parsed-fields-differ:"+strings.SplitN(msg, " ", 2)[0], fmt.Sprintf("line %q parsed with %s", clipStr(lines[fi]), msg), cas)
				return
			}
			if len(r2.AuxFields) != len(spec.Aux) {
				c.Violate("record:parsed-aux-count", fmt.Sprintf("line %q parsed with %d aux fields, want %d", clipStr(lines[fi]), len(r2.AuxFields), len(spec.Aux)), cas)
				return
			}
			for i, f := range spec.Aux {
				if g := r2.AuxFields[i]; g.Tag().String() != f.Tag || auxNumeric(g) != auxNumericSpec(f) {
					c.Violate("record:parsed-aux-differs:"+auxClass, fmt.Sprintf("aux field %d parsed as %s:%s, want %s:%s", i, g.Tag(), auxNumeric(g), f.Tag, auxNumericSpec(f)), cas)
					return
				}
			}
		}
		// the line reader gives the same record whatever the line end
		htext, _ := h.MarshalText()
		for _, in := range []string{string(htext) + lines[0] + "\n", string(htext) + lines[0], strings.ReplaceAll(string(htext), "\n", "\r\n") + lines[0] + "\r\n", string(htext) + lines[0] + "\r\n" + lines[0]} {
			sr, err := sam.NewReader(strings.NewReader(in))
			if err != nil {
				c.Violate("record:reader-error:"+auxClass, fmt.Sprintf("sam.NewReader on header + %q: %v", clipStr(lines[0]), err), cas)
				return
			}
			n := 0
			for ; n < 4; n++ {
				rec, err := sr.Read()
				if err == io.EOF {
					break
				}
				if err != nil {
					c.Violate("record:reader-error:"+auxClass, fmt.Sprintf("sam.Reader on %q: %v", clipStr(in[len(htext):]), err), cas)
					return
				}
				if b, err := rec.MarshalSAM(sam.FlagDecimal); err != nil || string(b) != lines[0] {
					c.Violate("record:reader-view-differs:"+auxClass, fmt.Sprintf("line read by sam.Reader (input ends %q) formats differently (err %v):\n  %q\n  %q", in[len(in)-2:], err, clipStr(lines[0]), clipStr(string(b))), cas)
					return
				}
			}
			if want := strings.Count(in[len(htext):], lines[0]); n != want {
				c.Violate("record:reader-count:"+auxClass, fmt.Sprintf("sam.Reader returned %d records for %d lines", n, want), cas)
				return
			}
		}
		// the BAM view of the record formats to the same line
		var buf bytes.Buffer
		w, err := bam.NewWriterLevel(&buf, h, 1, 1)
		if err != nil {
			c.Violate("record:bam-writer", err.Error(), cas)
			return
		}
		if err := w.Write(sr); err != nil {
			c.Violate("record:bam-write-error:"+auxClass, fmt.Sprintf("bam Write of %s: %v", describeRec(&spec), err), cas)
			return
		}
		w.Close()
		br, err := bam.NewReader(&buf, 1)
		if err != nil {
			c.Violate("record:bam-reader", err.Error(), cas)
			return
		}
		defer br.Close()
		rec, err := br.Read()
		if err != nil {
			c.Violate("record:bam-read-error:"+auxClass, fmt.Sprintf("reading back %s from BAM: %v", describeRec(&spec), err), cas)
			return
		}
		b3, err := rec.MarshalSAM(sam.FlagDecimal)
		if err != nil || normLine(string(b3)) != normLine(lines[0]) {
			c.Violate("record:bam-view-differs:"+auxClass, fmt.Sprintf("record written to BAM and read back formats differently (err %v):\n  %q\n  %q", err, clipStr(lines[0]), clipStr(string(b3))), cas)
		}
	})
}

// c06kept writes the whole domain into one BAM file and one SAM text, reads each back keeping
// every record, and only then formats them: a record must not change when later ones are read.
func c06kept(c *Ctx, dom []refimpl.Rec) {
	cas := c06case{Kind: "kept"}
	guard(c, "kept", cas, func() {
		h := recHeader()
		var want []string
		var bbuf bytes.Buffer
		var text strings.Builder
		htext, _ := h.MarshalText()
		text.Write(htext)
		w, err := bam.NewWriterLevel(&bbuf, h, 1, 1)
		if err != nil {
			c.Violate("kept:bam-writer", err.Error(), cas)
			return
		}
		for i := range dom {
			sr, err := toSam(&dom[i], h)
			if err != nil {
				continue
			}
			b, err := sr.MarshalSAM(sam.FlagDecimal)
			if err != nil || w.Write(sr) != nil {
				continue // judged record by record above
			}
			want = append(want, string(b))
			text.Write(b)
			text.WriteByte('\n')
		}
		w.Close()
		for _, view := range []string{"bam", "sam"} {
			var recs []*sam.Record
			var next func() (*sam.Record, error)
			if view == "bam" {
				br, err := bam.NewReader(bytes.NewReader(bbuf.Bytes()), 1)
				if err != nil {
					c.Violate("kept:bam-reader", err.Error(), cas)
					return
				}
				defer br.Close()
				next = br.Read
			} else {
				sr, err := sam.NewReader(strings.NewReader(text.String()))
				if err != nil {
					c.Violate("kept:sam-reader", err.Error(), cas)
					return
				}
				next = sr.Read
			}
			for {
				r, err := next()
				if err == io.EOF {
					break
				}
				if err != nil {
					c.Violate("kept:"+view+":read-error", fmt.Sprintf("record %d of %d: %v", len(recs), len(want), err), cas)
					return
				}
				recs = append(recs, r)
			}
			if len(recs) != len(want) {
				c.Violate("kept:"+view+":count", fmt.Sprintf("%d records read, %d written", len(recs), len(want)), cas)
				return
			}
			for i, r := range recs {
				b, err := r.MarshalSAM(sam.FlagDecimal)
				if err != nil || normLine(string(b)) != normLine(want[i]) {
					c.Violate("kept:"+view+":record-changed-after-later-reads", fmt.Sprintf("record %d of the %s stream, formatted after all reads (err %v):\n  %q\nwritten as\n  %q", i, view, err, clipStr(string(b)), clipStr(want[i])), cas)
					return
				}
			}
		}
	})
	c.Eval(2)
	c.AddExtra("kept_record_passes", int64(2))
}

func clipStr(s string) string {
	if len(s) > 300 {
		return s[:300] + "..."
	}
	return s
}

func c06reader(c *Ctx, input string, want []string, hdrLines int) {
	cas := c06case{Kind: "reader", Input: input}
	cls := fmt.Sprintf("crlf=%v,final-newline=%v,header=%v", strings.Contains(input, "\r\n"), strings.HasSuffix(input, "\n"), hdrLines > 0)
	guard(c, "reader:"+cls, cas, func() {
		r, err := sam.NewReader(strings.NewReader(input))
		if err != nil {
			if len(want) == 0 && input == "" {
				return // nothing to read: an error for empty input is acceptable
			}
			c.Violate("reader:NewReader-error:"+cls, fmt.Sprintf("NewReader(%q): %v", clipStr(input), err), cas)
			return
		}
		var got []string
		for i := 0; i < len(want)+3; i++ {
			rec, err := r.Read()
			if err == io.EOF {
				break
			}
			if err != nil {
				c.Violate("reader:Read-error:"+cls, fmt.Sprintf("input %q: Read %d: %v", clipStr(input), i, err), cas)
				return
			}
			b, _ := rec.MarshalSAM(sam.FlagDecimal)
			got = append(got, string(b))
		}
		if strings.Join(got, "\n") != strings.Join(want, "\n") {
			c.Violate("reader:records-differ:"+cls, fmt.Sprintf("input %q: reader returned %d records %q, the input has %d lines %q", clipStr(input), len(got), got, len(want), want), cas)
		}
	})
}

func c06(c *Ctx) {
	c.Rule = "records: a minimal and a maximal context record, each varied one dimension at a time: names (1 char, punctuation, 254 chars), flags (6 values), reference/position (5) x mate (none, same '=', other), MAPQ, template length (0, negative, extremes), CIGAR/sequence pairs (none, consistent with soft/hard clips, insertions/deletions, all 16 base codes, 2^28-1 length op) x qualities {absent, present incl. 0 and 93}, and aux fields: every single field of the C05 alphabet, integers at every narrowing boundary (-2^31 ... 2^32-1), pairs (thorough: every ordered pair of aux fields, and the full product of the scalar dimensions name x flags x reference/position x mate x MAPQ x template length). For each: MarshalSAM (decimal and hex flags) == formatter written from SAM v1 section 1.4/1.5 (hex digit case ignored); UnmarshalSAM of the line re-formats identically with equal field values (numeric equality for integers); the line read by sam.Reader (LF, no final newline, CRLF, two lines) formats identically; the record written to BAM and read back formats to the same line; all records written to one BAM file and one SAM text, read back and KEPT, format identically after all reads. line reader: every input of 0-3 records x {LF, CRLF} x final newline {yes,no} x header {none, @HD+@SQ}: one record per line, in order, then io.EOF. Non-trivial: every record / input with at least one line."
	if c.Replay != nil {
		var cas c06case
		if err := json.Unmarshal(c.Replay, &cas); err != nil {
			c.Infra = err.Error()
			return
		}
		if cas.Kind == "record" {
			c06record(c, *cas.Rec)
		} else if cas.Kind == "kept" {
			c06kept(c, c06domain(true))
			c06kept(c, c06domain(false))
		} else {
			var want []string
			n := 0
			for _, l := range strings.Split(strings.ReplaceAll(cas.Input, "\r\n", "\n"), "\n") {
				if l == "" {
					continue
				}
				if l[0] == '@' {
					n++
					continue
				}
				want = append(want, l)
			}
			c06reader(c, cas.Input, want, n)
		}
		return
	}
	dom := c06domain(c.Thorough)
	parallel(len(dom), func(i int) { c06record(c, dom[i]) })
	c.Eval(int64(len(dom)) * 3)
	c.NontrivialN(int64(len(dom)))
	c.AddExtra("records", int64(len(dom)))
	c.Sample(c06case{Kind: "record", Rec: &dom[len(dom)/3]})
	c06kept(c, dom)
	// line reader
	h := recHeader()
	htext, _ := h.MarshalText()
	var lines []string
	long := baseRec("long")
	long.Seq, long.Qual, long.Cigar = seqOf(3000), qualOf(3000), []uint32{cig('M', 3000)} // a line longer than any 4 KiB buffer
	for i, spec := range []refimpl.Rec{baseRec("a"), long, baseRec("c")} {
		spec.Name = fmt.Sprintf("%s%d", "l", i)
		lines = append(lines, refimpl.SAMLine(&spec, recRefs, 'd'))
	}
	var nin int64
	for n := 0; n <= 3; n++ {
		for _, term := range []string{"\n", "\r\n"} {
			for _, final := range []bool{true, false} {
				for _, hdr := range []bool{false, true} {
					var sb strings.Builder
					hl := 0
					if hdr {
						sb.WriteString(strings.ReplaceAll(string(htext), "\n", term))
						hl = 2
					}
					for i := 0; i < n; i++ {
						sb.WriteString(lines[i])
						if i < n-1 || final {
							sb.WriteString(term)
						}
					}
					if n == 0 && !final {
						continue
					}
					c06reader(c, sb.String(), lines[:n], hl)
					nin++
				}
			}
		}
	}
	c.Eval(nin)
	c.NontrivialN(nin - 4)
	c.AddExtra("reader_inputs", nin)
	c.Sample(c06case{Kind: "reader", Input: lines[0] + "\r\n" + lines[1]})
}
