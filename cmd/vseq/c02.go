package main

import (
	"bytes"
	"encoding/json"
	"fmt"
	"io"
	"os"
	"sort"
	"strings"
	"sync/atomic"
	"verif/refimpl"

	"github.com/biogo/hts/bgzf"
	"github.com/biogo/hts/bgzf/cache"

	"verif/faultio"
	"verif/rdr"
)

// C02/C03 with rd=1: explicit-state BFS over reader histories to a fixpoint. A state is the
// history that first reached it; a successor is a fresh Reader on a fresh copy of the file,
// the history replayed, one more operation applied and compared with the flat model (C02) and
// with an uncached Reader driven in lockstep (C03).

func init() {
	register("C02", "bfs", func(c *Ctx) { readerBFS(c, false) })
	register("C03", "bfs", func(c *Ctx) { readerBFS(c, true) })
}

type rfile struct {
	lens    []int
	marker  bool
	corrupt int  // 1+index of a member whose CRC32 is wrong (0: none); only for the differential search
	xfirst  bool // every member carries another extra subfield before the BC subfield
}

// mkFile builds the file; a corrupt member keeps its framing and deflate data, only the stored
// CRC32 is wrong, so every reader must fail on it in the same way each time it is decoded.
func mkFile(name string, lens []int, marker bool, corrupt int) *rdr.File {
	f := rdr.MakeFile(name, lens, marker)
	if corrupt < 0 { // -1: the extra-subfield-first layout
		f.Data, f.Bases = refimpl.EncodeFileExtraFirst(f.Blocks, 1, marker)
		return f
	}
	if corrupt > 0 {
		f.Data = append([]byte(nil), f.Data...)
		f.Data[f.Bases[corrupt]-8] ^= 0xff
	}
	return f
}

func (f rfile) name() string {
	s := fmt.Sprint(f.lens)
	if f.marker {
		s += "+EOF"
	}
	if f.corrupt > 0 {
		s += fmt.Sprintf(" (member %d has a wrong CRC)", f.corrupt-1)
	}
	if f.xfirst {
		s += " (another extra subfield before BC)"
	}
	return s
}

type bfsCase struct {
	File   string   `json:"file"`
	Lens   []int    `json:"lens"`
	Marker bool     `json:"marker"`
	Bad    int      `json:"corrupt_member_plus_1,omitempty"`
	Cache  string   `json:"cache,omitempty"`
	Cap    int      `json:"cap,omitempty"`
	Ops    []rdr.Op `json:"ops"`
}

func readerMenu(f *rdr.File, cacheKind string, cacheCap int) []rdr.Op {
	var m []rdr.Op
	if cacheKind != "" {
		// reduced menu for the cache search: every block start, offset 1 of every block with >= 2 bytes
		for b := 0; b < f.NBlocks(); b++ {
			m = append(m, rdr.Op{Op: "Seek", Blk: b})
		}
		for b := range f.Blocks {
			if len(f.Blocks[b]) >= 2 {
				m = append(m, rdr.Op{Op: "Seek", Blk: b, Off: 1})
			}
		}
		m = append(m, rdr.Op{Op: "Read", N: 1}, rdr.Op{Op: "Read", N: 2}, rdr.Op{Op: "Read", N: len(f.Flat) + 1}, rdr.Op{Op: "ReadByte"},
			rdr.Op{Op: "Blocked", On: true}, rdr.Op{Op: "Blocked", On: false},
			rdr.Op{Op: "SetCache", Cache: cacheKind, Cap: cacheCap}, rdr.Op{Op: "SetCache"})
		return m
	}
	for b := 0; b < f.NBlocks(); b++ {
		l := 0
		if b < len(f.Blocks) {
			l = len(f.Blocks[b])
		}
		offs := map[int]bool{0: true, l / 2: true, l: true}
		var os []int
		for o := range offs {
			os = append(os, o)
		}
		sort.Ints(os)
		for _, o := range os {
			m = append(m, rdr.Op{Op: "Seek", Blk: b, Off: o})
		}
	}
	all := len(f.Flat) + 1
	ns := []int{0, 1, 2, 4, all}
	if len(f.Flat) > 1000 {
		ns = []int{0, 1, 2, 65279, 65280, all}
	}
	for _, n := range ns {
		m = append(m, rdr.Op{Op: "Read", N: n})
	}
	m = append(m, rdr.Op{Op: "ReadByte"}, rdr.Op{Op: "Blocked", On: true}, rdr.Op{Op: "Blocked", On: false})
	if cacheKind != "" {
		m = append(m, rdr.Op{Op: "SetCache", Cache: cacheKind, Cap: cacheCap}, rdr.Op{Op: "SetCache"})
	}
	return m
}

// cacheDump renders the cache contents relative to the reader's current block.
func cacheDump(r *bgzf.Reader, c bgzf.Cache) string {
	if c == nil {
		return "nocache"
	}
	blocks, keys, capacity := cache.VerifDump(c)
	var sb strings.Builder
	fmt.Fprintf(&sb, "cap=%d[", capacity)
	cur := r.VerifCurrent()
	for i, b := range blocks {
		fmt.Fprintf(&sb, "(k%d b%d u%v cur=%v)", keys[i], b.Base(), b.Used(), b == cur)
	}
	sb.WriteString("]")
	return sb.String()
}

// horizon guards against code that loops forever: every call on the underlying reader and on
// the cache is counted, and exceeding the horizon panics (reported as a livelock).
type horizon struct{ n int }

const horizonCalls = 20000

func (h *horizon) tick() {
	h.n++
	if h.n > horizonCalls {
		panic(livelock{})
	}
}

type livelock struct{}

func (livelock) Error() string { return "horizon exceeded: operation does not terminate" }

type countingCache struct {
	bgzf.Cache
	h *horizon
}

func (c countingCache) Get(base int64) bgzf.Block { c.h.tick(); return c.Cache.Get(base) }
func (c countingCache) Put(b bgzf.Block) (bgzf.Block, bool) {
	c.h.tick()
	return c.Cache.Put(b)
}
func (c countingCache) Peek(base int64) (bool, int64) { c.h.tick(); return c.Cache.Peek(base) }

// aliased reports a cache that indexes a block under an offset other than its base, or that
// still indexes the Reader's current block: the Reader overwrites its current block with other
// members, so such a state is about to serve wrong data. The search does not report these
// internal states; it looks for their observable consequence (see bfsOne).
func aliased(r *bgzf.Reader, c bgzf.Cache) bool {
	blocks, keys, _ := cache.VerifDump(c)
	cur := r.VerifCurrent()
	for i, b := range blocks {
		if keys[i] != b.Base() || b == cur {
			return true
		}
	}
	return false
}

type bfsStats struct {
	states, transitions, nontrivial, probes int64
	maxDepth                                int
}

// runHistory replays ops on fresh readers and checks the last operation. It returns the state
// key after the last op ("" if a violation was recorded).
func runHistory(c *Ctx, f *rdr.File, cas bfsCase, withCache bool, probe bool) (key string, nontrivial bool) {
	ops := cas.Ops
	var key2 string
	ok := guard(c, cas.Cache, cas, func() {
		hz := &horizon{}
		r, err := bgzf.NewReader(&faultio.ReadSeeker{Data: f.Data, Hook: hz.tick}, 1)
		if err != nil {
			c.Violate("newreader-error", fmt.Sprintf("NewReader on %s: %v", f.Name, err), cas)
			return
		}
		defer r.Close()
		var plain *bgzf.Reader
		if withCache {
			plain, _ = bgzf.NewReader(bytes.NewReader(f.Data), 1)
			defer plain.Close()
		}
		m := rdr.NewModel(f)
		var cur bgzf.Cache
		for i, op := range ops {
			e := m.Apply(op)
			var o rdr.Obs
			if op.Op == "SetCache" {
				cur = rdr.NewCache(op.Cache, op.Cap)
				if cur != nil {
					r.SetCache(countingCache{cur, hz})
				} else {
					r.SetCache(nil)
				}
			} else {
				o = rdr.Do(f, r, op)
			}
			last := i == len(ops)-1
			if withCache {
				if op.Op == "SetCache" {
					continue
				}
				po := rdr.Do(f, plain, op)
				if !last {
					continue
				}
				kind := cas.Cache
				if !bytes.Equal(o.Data, po.Data) {
					c.Violate(kind+":differs-from-uncached:data", fmt.Sprintf("%s on %s: cached reader returned %v, uncached reader %v\nhistory: %s", op, f.Name, o.Data, po.Data, rdr.OpsString(ops)), cas)
					return
				}
				if (o.Err == nil) != (po.Err == nil) || (o.Err == io.EOF) != (po.Err == io.EOF) {
					c.Violate(kind+":differs-from-uncached:error", fmt.Sprintf("%s on %s: cached reader err=%v, uncached err=%v\nhistory: %s", op, f.Name, o.Err, po.Err, rdr.OpsString(ops)), cas)
					return
				}
				if o.Chunk != po.Chunk {
					c.Violate(kind+":differs-from-uncached:lastchunk", fmt.Sprintf("%s on %s: cached reader LastChunk=%v, uncached %v\nhistory: %s", op, f.Name, o.Chunk, po.Chunk, rdr.OpsString(ops)), cas)
					return
				}
				nontrivial = cur != nil
			} else if last {
				if sig, msg := rdr.Compare(f, op, e, o); sig != "" {
					c.Violate(sig+":"+op.Op, fmt.Sprintf("%s\nfile %s, history: %s", msg, f.Name, rdr.OpsString(ops)), cas)
					return
				}
				nontrivial = op.Op == "Read" || op.Op == "ReadByte" || op.Op == "Seek"
			}
		}
		key2 = r.VerifDump()
		if withCache {
			// lastChunk is output-only state and both readers are compared on it at every step,
			// so it need not distinguish states of the differential search
			if i := strings.Index(key2, " last="); i >= 0 {
				key2 = key2[:i]
			}
		}
		key2 += " | " + cacheDump(r, cur)
		if withCache && cur != nil && aliased(r, cur) {
			key2 = "ALIAS " + key2
		}
		if probe && cas.Bad <= 0 {
			// differential guard for the state key: from any state, reading everything must
			// give the rest of the flat data (the model knows the position)
			r.Blocked = false
			m.Blocked = false
			if m.EOF {
				return
			}
			e := m.Apply(rdr.Op{Op: "Read", N: len(f.Flat) + 1})
			buf := make([]byte, len(f.Flat)+1)
			n, _ := io.ReadFull(r, buf)
			if !bytes.Equal(buf[:n], e.Data) {
				c.Violate("probe:rest-of-data:"+cas.Cache, fmt.Sprintf("after history %s on %s, reading on returns %v, the flat copy has %v", rdr.OpsString(ops), f.Name, buf[:n], e.Data), cas)
				key2 = ""
			}
		}
	})
	if !ok {
		return "", true
	}
	return key2, nontrivial
}

func bfsOne(c *Ctx, rf rfile, cacheKind string, cacheCap int, withCache bool, st *bfsStats, maxStates int) {
	if rf.xfirst {
		rf.corrupt = -1
	}
	f := mkFile(rf.name(), rf.lens, rf.marker, rf.corrupt)
	menu := readerMenu(f, cacheKind, cacheCap)
	mk := func(ops []rdr.Op) bfsCase {
		return bfsCase{File: f.Name, Lens: rf.lens, Marker: rf.marker, Bad: rf.corrupt, Cache: cacheKind, Cap: cacheCap, Ops: ops}
	}
	rootKey, _ := runHistory(c, f, mk(nil), withCache, false)
	seen := map[string]bool{rootKey: true}
	frontier := [][]rdr.Op{nil}
	var states, transitions, nontriv, probes int64 = 1, 0, 0, 0
	aliasStates := 0
	depth := 0
	for len(frontier) > 0 {
		depth++
		type succ struct {
			ops []rdr.Op
			key string
		}
		results := make([][]succ, len(frontier))
		parallel(len(frontier), func(i int) {
			h := frontier[i]
			for _, op := range menu {
				ops := append(append([]rdr.Op(nil), h...), op)
				key, nt := runHistory(c, f, mk(ops), withCache, false)
				atomic.AddInt64(&transitions, 1)
				if nt {
					atomic.AddInt64(&nontriv, 1)
				}
				if key != "" {
					results[i] = append(results[i], succ{ops, key})
				}
			}
		})
		var next [][]rdr.Op
		var dups [][]rdr.Op
		for _, rs := range results {
			for _, s := range rs {
				if strings.HasPrefix(s.key, "ALIAS ") {
					// not expanded as a state of its own: search (depth <= 3, every history) for an
					// observable difference from the uncached reader, for the first few such states
					if !seen[s.key] {
						seen[s.key] = true
						aliasStates++
						if aliasStates <= 12 {
							for _, h := range historiesFrom(s.ops, menu, 3) {
								if k, _ := runHistory(c, f, mk(h), withCache, false); k == "" {
									break
								}
								transitions++
							}
						}
					}
					continue
				}
				if !seen[s.key] {
					seen[s.key] = true
					states++
					next = append(next, s.ops)
				} else {
					dups = append(dups, s.ops)
				}
			}
		}
		// probe continuation on transitions that were merged into a known state
		parallel(len(dups), func(i int) {
			runHistory(c, f, mk(dups[i]), withCache, true)
			atomic.AddInt64(&probes, 1)
		})
		frontier = next
		if maxStates > 0 && states > int64(maxStates) {
			c.NotExhaustive(fmt.Sprintf("state cap %d reached for file %s cache %s(%d) at depth %d", maxStates, f.Name, cacheKind, cacheCap, depth))
			break
		}
		if c.NumViolations() > 40 {
			break
		}
	}
	if aliasStates > 0 {
		c.AddCount("alias_states_not_expanded", int64(aliasStates))
	}
	atomic.AddInt64(&st.states, states)
	atomic.AddInt64(&st.transitions, transitions)
	atomic.AddInt64(&st.nontrivial, nontriv)
	atomic.AddInt64(&st.probes, probes)
	if depth > st.maxDepth {
		st.maxDepth = depth
	}
	fmt.Fprintf(os.Stderr, "bfs %s cache=%s(%d): states=%d transitions=%d depth=%d\n", f.Name, cacheKind, cacheCap, states, transitions, depth)
	c.Sample(map[string]interface{}{"file": f.Name, "cache": cacheKind, "cap": cacheCap, "states": states, "transitions": transitions, "depth_of_fixpoint": depth, "menu": len(menu)})
}

// historiesFrom extends base by every sequence over menu of length 1..n, shortest first.
func historiesFrom(base []rdr.Op, menu []rdr.Op, n int) [][]rdr.Op {
	var out [][]rdr.Op
	level := [][]rdr.Op{base}
	for l := 0; l < n; l++ {
		var next [][]rdr.Op
		for _, h := range level {
			for _, op := range menu {
				if op.Op == "SetCache" {
					continue
				}
				next = append(next, append(append([]rdr.Op(nil), h...), op))
			}
		}
		out = append(out, next...)
		level = next
	}
	return out
}

func readerBFS(c *Ctx, withCache bool) {
	if c.Replay != nil {
		var cas bfsCase
		if err := json.Unmarshal(c.Replay, &cas); err != nil {
			c.Infra = err.Error()
			return
		}
		f := mkFile(cas.File, cas.Lens, cas.Marker, cas.Bad)
		runHistory(c, f, cas, withCache, false)
		return
	}
	files := []rfile{{lens: []int{3, 1, 2}, marker: true}, {lens: []int{2, 0, 3}, marker: true}, {lens: []int{1, 2, 0}, marker: true}, {lens: []int{3, 1, 2}, marker: false}, {lens: []int{2, 0, 3}, marker: false}, {lens: []int{1, 2, 0}, marker: false}}
	if c.Thorough {
		files = append(files, rfile{lens: []int{65280, 1}, marker: true}, rfile{lens: []int{1, 0, 0, 2}, marker: true})
	}
	var st bfsStats
	if !withCache {
		c.Rule = "rd=1, no cache: BFS to a fixpoint over histories of {Seek(every block incl. the EOF marker, offset 0/mid/len), Read(0,1,2,4,all), ReadByte, Blocked on/off} on files with block lengths [3 1 2], [2 0 3], [1 2 0] with and without EOF marker (thorough adds [65280 1] and [1 0 0 2]); files built by the independent BGZF encoder (one of them with another gzip extra subfield in front of the BC subfield in every member); state key = dump of the Reader's mutable fields (current block base/offset/remaining/used, sticky error, Blocked, lastChunk); every transition compared with the flat model (bytes, io.EOF exactly at end of data / of block in Blocked mode, LastChunk translating to the flat positions before/after the bytes); every transition merged into a known state is followed by a probe (read to the end must return the rest of the flat data). Non-trivial: transitions whose last op is a Seek or a read."
		files = append(files, rfile{lens: []int{3, 1, 2}, marker: true, xfirst: true})
		for _, rf := range files {
			bfsOne(c, rf, "", 0, false, &st, 0)
		}
	} else {
		c.Rule = "rd=1: as C02 plus SetCache(kind,cap) and SetCache(nil) as operations at any point, one BFS per cache kind x capacity; state key additionally holds the cache's queue (keys, bases, used flags, whether an entry is the Reader's current block); every transition compared, operation by operation, with an uncached Reader driven by the same history (bytes, error class, LastChunk), plus the read-to-end probe on merged transitions; also on [3 1 2]+EOF with a wrong CRC32 in member 1 (lockstep comparison only: same bytes, same error class at every step). Non-trivial: transitions executed with a cache attached."
		kinds := []string{"LRU", "FIFO", "Random"}
		caps := []int{1, 2}
		fs := files[:2]
		if c.Thorough {
			kinds = []string{"LRU", "FIFO", "Random", "Stats(LRU)", "Stats(FIFO)", "Stats(Random)"}
			caps = []int{1, 2, 3}
			fs = files[:6]
		}
		for _, rf := range fs {
			for _, k := range kinds {
				for _, cp := range caps {
					bfsOne(c, rf, k, cp, true, &st, 60000)
				}
			}
		}
		// a file with a damaged member: the cached reader must fail where the uncached one fails,
		// every time the member is reached (no flat model here, only the lockstep comparison)
		bad := rfile{lens: []int{3, 1, 2}, marker: true, corrupt: 2}
		for _, k := range kinds {
			if !c.Thorough && k == "FIFO" {
				continue
			}
			for _, cp := range caps {
				bfsOne(c, bad, k, cp, true, &st, 60000)
			}
		}
	}
	c.Eval(st.transitions + st.probes)
	c.NontrivialN(st.nontrivial)
	c.AddStates(st.states, st.transitions, st.transitions)
	c.AddExtra("probe_continuations", st.probes)
	c.AddExtra("max_fixpoint_depth", st.maxDepth)
	c.Assume("the Reader has no mutable state that its methods read beyond the fields dumped by VerifDump and the cache contents (checked by the probe continuation on merged transitions)")
	c.Assume("rdr.Model is the flat-stream semantics stated by the property; files come from refimpl's independent BGZF encoder")
}
