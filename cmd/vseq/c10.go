package main

import (
	"bytes"
	"encoding/json"
	"fmt"
	"io"
	"strings"
	"sync/atomic"
	"time"

	"github.com/biogo/hts/bam"
	"github.com/biogo/hts/bgzf"
	"github.com/biogo/hts/sam"

	"verif/refimpl"
)

func init() { register("C10", "corrupt", c10) }

type c10case struct {
	Stream string `json:"stream"`
	Kind   string `json:"kind"` // "trunc" or "subst"
	At     int    `json:"at"`
	Val    int    `json:"val,omitempty"`
	RD     int    `json:"rd"`
}

type c10stream struct {
	name    string
	data    []byte
	isBAM   bool
	payload []byte       // BGZF: the uncompressed data
	records []string     // BAM: the SAM text of each record
	bounds  map[int]int  // member boundary (stream offset) -> decoded bytes before it
	recEnds map[int]bool // BAM: decoded offsets at which a record (or the header) ends
	sparse  bool         // large stream: mutate every position near a member boundary and every 61st (7th in thorough) elsewhere
}

func libWriter(script []sop, rand bool) []byte {
	var buf bytes.Buffer
	w := bgzf.NewWriter(&buf, 1)
	off := 0
	for _, o := range script {
		switch o.Op {
		case "W":
			w.Write(payload(rand, off, o.N))
			off += o.N
		case "F":
			w.Flush()
		}
	}
	w.Close()
	return buf.Bytes()
}

func c10samHeader() (*sam.Header, *sam.Reference) {
	ref, _ := sam.NewReference("chr1", "", "", 100000, nil, nil)
	h, _ := sam.NewHeader(nil, []*sam.Reference{ref})
	return h, ref
}

func c10records(ref *sam.Reference) []*sam.Record {
	var recs []*sam.Record
	for i, l := range []int{4, 9, 2} {
		seq := make([]byte, l)
		q := make([]byte, l)
		for j := range seq {
			seq[j] = "ACGT"[(i+j)%4]
			q[j] = byte(30 + j)
		}
		aux, _ := sam.NewAux(sam.NewTag("NM"), i)
		r, err := sam.NewRecord(fmt.Sprintf("r%d", i), ref, nil, 10+100*i, -1, 0, 40, []sam.CigarOp{sam.NewCigarOp(sam.CigarMatch, l)}, seq, q, []sam.Aux{aux})
		if err != nil {
			panic(err)
		}
		recs = append(recs, r)
	}
	return recs
}

func finishStream(s *c10stream) {
	ms, partial, err := refimpl.ParseStream(s.data)
	if err != nil || partial {
		panic(fmt.Sprintf("generator produced a bad stream %s: %v", s.name, err))
	}
	s.bounds = map[int]int{0: 0}
	dec := 0
	for _, m := range ms {
		dec += len(m.Payload)
		s.bounds[int(m.Off)+m.Size] = dec
	}
	s.payload = refimpl.Payloads(ms)
}

func c10streams(thorough bool) []*c10stream {
	var out []*c10stream
	s1 := &c10stream{name: "S1:lib W5 F W4 C", data: libWriter([]sop{{Op: "W", N: 5}, {Op: "F"}, {Op: "W", N: 4}}, false)}
	s2 := &c10stream{name: "S2:lib W300 F W300 C", data: libWriter([]sop{{Op: "W", N: 300}, {Op: "F"}, {Op: "W", N: 300}}, false)}
	blocks := [][]byte{payload(false, 0, 5), nil, payload(false, 5, 4)}
	d4, _ := refimpl.EncodeFile(blocks, 1, true)
	s4 := &c10stream{name: "S4:ref [5 0 4]+EOF", data: d4}
	out = append(out, s1, s2, s4)
	s3 := &c10stream{name: "S3:lib W65280(incompressible) W1 C", data: libWriter([]sop{{Op: "W", N: BS}, {Op: "W", N: 1}}, true), sparse: true}
	out = append(out, s3)
	s5 := &c10stream{name: "S5:lib W65280(compressible) C", data: libWriter([]sop{{Op: "W", N: BS}}, false), sparse: true}
	out = append(out, s5)
	// a member that inflates to exactly 64 KiB (legal BGZF that the library's own writer, which
	// cuts at 65280, never produces): 40000 incompressible bytes then a compressible tail
	p6 := append(payload(true, 0, 40000), payload(false, 40000, 65536-40000)...)
	d6, _ := refimpl.EncodeFile([][]byte{p6, payload(false, 65536, 3)}, 1, true)
	out = append(out, &c10stream{name: "S6:ref [65536 3]+EOF", data: d6, sparse: true})
	// BAM by the library's writer
	h, ref := c10samHeader()
	recs := c10records(ref)
	var bb bytes.Buffer
	bw, _ := bam.NewWriter(&bb, h, 1)
	for _, r := range recs {
		bw.Write(r)
	}
	bw.Close()
	b1 := &c10stream{name: "B1:bam.Writer 3 records", data: append([]byte(nil), bb.Bytes()...), isBAM: true}
	out = append(out, b1)
	// the same decoded stream re-blocked so that record 1 spans a block boundary and record 0
	// ends exactly at a block end
	finishStream(b1)
	stream := b1.payload
	ends := bamRecordEnds(stream)
	cutA := ends[1]                 // end of record 0 = block end
	cutB := (ends[1] + ends[2]) / 2 // inside record 1
	cutC := ends[2] + 2             // inside the length prefix of record 2
	d2, _ := refimpl.EncodeFile([][]byte{stream[:cutA], stream[cutA:cutB], stream[cutB:cutC], stream[cutC:]}, 1, true)
	out = append(out, &c10stream{name: "B2:ref re-blocked, records spanning blocks", data: d2, isBAM: true})
	// a block boundary exactly after the 4-byte length prefix of record 1
	d3, _ := refimpl.EncodeFile([][]byte{stream[:ends[1]+4], stream[ends[1]+4:]}, 1, true)
	out = append(out, &c10stream{name: "B3:ref re-blocked, block ends after a length prefix", data: d3, isBAM: true})
	for _, s := range out {
		finishStream(s)
		if s.isBAM {
			s.recEnds = map[int]bool{}
			for _, e := range bamRecordEnds(s.payload) {
				s.recEnds[e] = true
			}
			for _, r := range recs {
				t, _ := r.MarshalText()
				s.records = append(s.records, string(t))
			}
		}
	}
	return out
}

// bamRecordEnds returns the decoded offsets of the end of the header and of every record.
func bamRecordEnds(b []byte) []int {
	le := func(o int) int {
		return int(int32(uint32(b[o]) | uint32(b[o+1])<<8 | uint32(b[o+2])<<16 | uint32(b[o+3])<<24))
	}
	p := 4
	p += 4 + le(p)
	n := le(p)
	p += 4
	for i := 0; i < n; i++ {
		p += 4 + le(p) + 4
	}
	ends := []int{p}
	for p < len(b) {
		p += 4 + le(p)
		ends = append(ends, p)
	}
	return ends
}

type readResult struct {
	data    []byte
	records []string
	err     error // nil means a clean io.EOF was reported
}

func c10read(c *Ctx, s *c10stream, cas c10case, data []byte) (res readResult, ok bool) {
	ok = guardRun(c, "read", cas, 120*time.Second, func() {
		if !s.isBAM {
			r, err := bgzf.NewReader(bytes.NewReader(data), cas.RD)
			if err != nil {
				res.err = err
				return
			}
			defer r.Close()
			buf := make([]byte, 97)
			for {
				n, err := r.Read(buf)
				res.data = append(res.data, buf[:n]...)
				if err == io.EOF {
					return
				}
				if err != nil {
					res.err = err
					return
				}
			}
		}
		r, err := bam.NewReader(bytes.NewReader(data), cas.RD)
		if err != nil {
			res.err = err
			return
		}
		defer r.Close()
		for {
			rec, err := r.Read()
			if err == io.EOF {
				return
			}
			if err != nil {
				res.err = err
				return
			}
			t, terr := rec.MarshalText()
			if terr != nil {
				res.err = terr
				return
			}
			res.records = append(res.records, string(t))
		}
	})
	return res, ok
}

func isPrefixStr(a, b []string) bool {
	if len(a) > len(b) {
		return false
	}
	for i := range a {
		if a[i] != b[i] {
			return false
		}
	}
	return true
}

// c10seekRetry positions a fresh reader on every member of the original layout twice (a caller
// retrying after an error) and reads on: whatever comes back without an error must be the
// original data from that member on (a prefix of it for a truncated stream).
func c10seekRetry(c *Ctx, s *c10stream, cas c10case, data []byte) bool {
	good := true
	for base, dec := range s.bounds {
		if base >= len(data) || base >= len(s.data) {
			continue
		}
		base, dec := base, dec
		guardRun(c, "seek-retry", cas, 120*time.Second, func() {
			r, err := bgzf.NewReader(bytes.NewReader(data), cas.RD)
			if err != nil {
				return
			}
			defer r.Close()
			r.Seek(bgzf.Offset{File: int64(base)})
			if err := r.Seek(bgzf.Offset{File: int64(base)}); err != nil {
				return
			}
			var got []byte
			buf := make([]byte, 97)
			var rerr error
			for {
				n, err := r.Read(buf)
				got = append(got, buf[:n]...)
				if err != nil {
					if err != io.EOF {
						rerr = err
					}
					break
				}
				if len(got) > len(s.payload)+1000 {
					break
				}
			}
			want := s.payload[dec:]
			if len(got) > len(want) || !bytes.Equal(got, want[:len(got)]) {
				c.Violate("bgzf:"+cas.Kind+":seek-retry:different-data", fmt.Sprintf("%s %s at %d (value %#x) rd=%d: Seek to member offset %d twice, then reading returned %d bytes that are not the original data from there (first difference %d), err %v", s.name, cas.Kind, cas.At, cas.Val, cas.RD, base, len(got), firstDiff(got, want), rerr), cas)
				good = false
				return
			}
			if cas.Kind == "subst" && rerr == nil && len(got) != len(want) {
				c.Violate("bgzf:subst:seek-retry:short-without-error", fmt.Sprintf("%s subst at %d (value %#x) rd=%d: Seek to member offset %d twice, then reading ended cleanly after %d of %d bytes", s.name, cas.At, cas.Val, cas.RD, base, len(got), len(want)), cas)
				good = false
			}
		})
		if !good {
			return false
		}
	}
	return true
}

func c10one(c *Ctx, s *c10stream, cas c10case) (nontrivial bool) {
	var data []byte
	if cas.Kind == "trunc" {
		data = s.data[:cas.At]
	} else {
		data = append([]byte(nil), s.data...)
		if data[cas.At] == byte(cas.Val) {
			return false
		}
		data[cas.At] = byte(cas.Val)
	}
	res, ok := c10read(c, s, cas, data)
	if !ok {
		return true
	}
	if !s.isBAM && !c10seekRetry(c, s, cas, data) {
		return true
	}
	kind := "bgzf"
	if s.isBAM {
		kind = "bam"
	}
	where := fmt.Sprintf("%s %s at %d (value %#x) rd=%d", s.name, cas.Kind, cas.At, cas.Val, cas.RD)
	if cas.Kind == "trunc" {
		// a prefix, then an error; a clean end only at a member (and record) boundary
		if s.isBAM {
			if !isPrefixStr(res.records, s.records) {
				c.Violate(kind+":trunc:not-a-prefix", fmt.Sprintf("%s: records read are not a prefix of the original: %q", where, res.records), cas)
				return true
			}
		} else if len(res.data) > len(s.payload) || !bytes.Equal(res.data, s.payload[:len(res.data)]) {
			c.Violate(kind+":trunc:not-a-prefix", fmt.Sprintf("%s: %d bytes read are not a prefix of the original (first difference %d)", where, len(res.data), firstDiff(res.data, s.payload)), cas)
			return true
		}
		dec, atMember := s.bounds[cas.At]
		clean := res.err == nil
		legal := atMember
		if s.isBAM {
			legal = atMember && s.recEnds[dec]
		}
		if clean && !legal {
			class := "mid-member"
			if atMember {
				class = "member-boundary-inside-record"
			} else if cas.At < 28 {
				class = "mid-member"
			}
			c.Violate(kind+":trunc:clean-eof:"+class, fmt.Sprintf("%s: stream cut inside %s read as a clean end of data after %d bytes / %d records", where, class, len(res.data), len(res.records)), cas)
			return true
		}
		if clean && legal {
			// everything before the cut must have been delivered
			if !s.isBAM && len(res.data) != dec {
				c.Violate(kind+":trunc:short", fmt.Sprintf("%s: clean end after %d bytes, the prefix holds %d", where, len(res.data), dec), cas)
				return true
			}
			// HasEOF must be false for a proper prefix (unless the prefix itself ends in an empty
			// member, which is byte-identical to the marker)
			ms, _, _ := refimpl.ParseStream(data)
			endsEmpty := len(ms) > 0 && len(ms[len(ms)-1].Payload) == 0
			if len(data) >= 28 && !endsEmpty {
				if has, err := bgzf.HasEOF(bytes.NewReader(data)); err != nil || has {
					c.Violate(kind+":trunc:HasEOF", fmt.Sprintf("%s: HasEOF on the proper prefix = %v, %v", where, has, err), cas)
					return true
				}
			}
		}
		return true
	}
	// substitution: an error, or exactly the original data
	if res.err != nil {
		return true
	}
	if s.isBAM {
		if strings.Join(res.records, "\n") != strings.Join(s.records, "\n") {
			c.Violate(kind+":subst:different-data", fmt.Sprintf("%s: read without error but the records differ: %q", where, res.records), cas)
		}
		return true
	}
	if !bytes.Equal(res.data, s.payload) {
		field := "payload-or-trailer"
		for b := range s.bounds {
			if cas.At >= b && cas.At < b+18 {
				field = fmt.Sprintf("header-byte-%d", cas.At-b)
			}
		}
		c.Violate(kind+":subst:different-data:"+field, fmt.Sprintf("%s: read without error but returned %d bytes where the original has %d (first difference %d)", where, len(res.data), len(s.payload), firstDiff(res.data, s.payload)), cas)
	}
	return true
}

func c10(c *Ctx) {
	c.Rule = "streams: BGZF S1 (library writer, blocks 5+4), S2 (2x300 bytes), S4 (independent encoder, blocks [5 0 4]), S3/S5 (one full 65280-byte block, incompressible + 1 byte / compressible) and S6 (independent encoder, a member inflating to exactly 65536 bytes, then 3 bytes) (these three mutated at every position within 24 bytes of a member boundary or of the ends and at every 61st (thorough 7th) position elsewhere); BAM B1 (bam.Writer, 3 records) and B2 (same stream re-blocked so that a record ends at a block end, one spans a boundary and one has its length prefix split), B3 (a block ends right after a record's length prefix). Every truncation length 0..len-1 and every single-byte substitution (quick: b^1, b^0x80, ^b, 0, 0xff, 17, 18, b-1, b+1, and all 255 other values for the eight framing bytes XLEN..BSIZE of every member; thorough: all 255 other values everywhere except in the sparse streams) x rd {1,2}. Oracle: truncation -> a prefix of the original bytes/records then an error, a clean io.EOF only when the cut is at a member boundary (BAM: that is also a record boundary), and then HasEOF is false; substitution -> an error or exactly the original data; BGZF streams additionally: a fresh reader positioned twice (a retry) on each member offset of the original layout and read on returns, if no error, the original data from there (a prefix for truncations). Non-trivial: every mutation that changes the stream."
	streams := c10streams(c.Thorough)
	find := func(n string) *c10stream {
		for _, s := range streams {
			if s.name == n {
				return s
			}
		}
		return nil
	}
	if c.Replay != nil {
		var cas c10case
		if err := json.Unmarshal(c.Replay, &cas); err != nil {
			c.Infra = err.Error()
			return
		}
		s := find(cas.Stream)
		if s == nil {
			streams = c10streams(true)
			s = find(cas.Stream)
		}
		c10one(c, s, cas)
		return
	}
	type job struct {
		s   *c10stream
		cas c10case
	}
	var jobs []job
	for _, s := range streams {
		for _, rd := range []int{1, 2} {
			step := 1
			if s.sparse {
				step = 61
				if c.Thorough {
					step = 7
				}
			}
			skip := func(at int) bool {
				if step == 1 || at%step == 0 || at < 64 || at > len(s.data)-64 {
					return false
				}
				for b := range s.bounds {
					if at >= b-12 && at <= b+24 {
						return false
					}
				}
				return true
			}
			for at := 0; at < len(s.data); at++ {
				if !skip(at) {
					jobs = append(jobs, job{s, c10case{Stream: s.name, Kind: "trunc", At: at, RD: rd}})
				}
			}
			for at := 0; at < len(s.data); at++ {
				if skip(at) {
					continue
				}
				b := s.data[at]
				vals := []int{int(b ^ 1), int(b ^ 0x80), int(^b), 0, 0xff, 17, 18, int(b) - 1, int(b) + 1}
				framing := false // XLEN, the BC subfield header and BSIZE of a member: every value in both tiers
				for mb := range s.bounds {
					if at >= mb+10 && at < mb+18 {
						framing = true
					}
				}
				if c.Thorough && !s.sparse || framing {
					vals = vals[:0]
					for v := 0; v < 256; v++ {
						vals = append(vals, v)
					}
				}
				seen := map[int]bool{int(b): true}
				for _, v := range vals {
					v &= 0xff
					if seen[v] {
						continue
					}
					seen[v] = true
					jobs = append(jobs, job{s, c10case{Stream: s.name, Kind: "subst", At: at, Val: v, RD: rd}})
				}
			}
		}
	}
	var nt int64
	parallel(len(jobs), func(i int) {
		if c10one(c, jobs[i].s, jobs[i].cas) {
			atomic.AddInt64(&nt, 1)
		}
	})
	c.Eval(int64(len(jobs)))
	c.NontrivialN(nt)
	for _, s := range streams {
		c.AddExtra("len "+s.name, int64(len(s.data)))
	}
	c.Sample(jobs[len(jobs)/2].cas)
	c.Sample(jobs[len(jobs)-1].cas)
}
