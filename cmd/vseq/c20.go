package main

import (
	"bytes"
	"encoding/json"
	"fmt"
	"io"
	"math"
	"sort"
	"sync/atomic"

	"github.com/biogo/hts/cram"
	"github.com/biogo/hts/cram/encoding/itf8"
	"github.com/biogo/hts/cram/encoding/ltf8"

	"verif/refimpl"
)

func init() { register("C20", "codec", c20) }

type c20case struct {
	Codec string `json:"codec"`
	Kind  string `json:"kind"` // "value" or "bytes"
	Value int64  `json:"value,omitempty"`
	Bytes []int  `json:"bytes,omitempty"`
}

func c20itfValue(c *Ctx, v int32) {
	ref := refimpl.ITF8(v)
	cas := c20case{Codec: "itf8", Kind: "value", Value: int64(v)}
	class := fmt.Sprintf("len%d", len(ref))
	guard(c, "itf8:value:"+class, cas, func() {
		if l := itf8.Len(v); l != len(ref) {
			c.Violate("itf8:Len:"+class, fmt.Sprintf("Len(%#x)=%d, spec %d", uint32(v), l, len(ref)), cas)
		}
		buf := make([]byte, len(ref)) // exact: writing more than the spec length panics
		n := itf8.Encode(buf, v)
		if n != len(ref) {
			c.Violate("itf8:Encode-n:"+class, fmt.Sprintf("Encode(%#x) returned %d, spec %d", uint32(v), n, len(ref)), cas)
		}
		if !bytes.Equal(buf, ref) {
			c.Violate("itf8:Encode-bytes:"+class, fmt.Sprintf("Encode(%#x)=% x, spec % x", uint32(v), buf, ref), cas)
		}
		got, dn, ok := itf8.Decode(buf)
		if !ok || got != v || dn != n {
			c.Violate("itf8:roundtrip:"+class, fmt.Sprintf("Decode(Encode(%#x)=% x) = (%#x,%d,%v)", uint32(v), buf, uint32(got), dn, ok), cas)
		}
		// decoding the specification's bytes must give v as well
		got, dn, ok = itf8.Decode(ref)
		if !ok || got != v || dn != len(ref) {
			c.Violate("itf8:Decode-spec-bytes:"+class, fmt.Sprintf("Decode(% x) = (%#x,%d,%v), want %#x", ref, uint32(got), dn, ok, uint32(v)), cas)
		}
	})
}

// c20itfFast is the allocation-free form of the oracle in c20itfValue used for the complete
// 2^32 sweep: spec bytes computed inline (CRAM v3 §2.3), Encode into a slice of exactly the
// spec length, Len, Decode. Any disagreement (or panic) sends the value down the slow path.
func c20itfFast(v int32, buf, ref *[8]byte) (ok bool) {
	defer func() {
		if recover() != nil {
			ok = false
		}
	}()
	u := uint32(v)
	var n int
	switch {
	case u < 1<<7:
		n, ref[0] = 1, byte(u)
	case u < 1<<14:
		n, ref[0], ref[1] = 2, 0x80|byte(u>>8), byte(u)
	case u < 1<<21:
		n, ref[0], ref[1], ref[2] = 3, 0xc0|byte(u>>16), byte(u>>8), byte(u)
	case u < 1<<28:
		n, ref[0], ref[1], ref[2], ref[3] = 4, 0xe0|byte(u>>24), byte(u>>16), byte(u>>8), byte(u)
	default:
		n, ref[0], ref[1], ref[2], ref[3], ref[4] = 5, 0xf0|byte(u>>28), byte(u>>20), byte(u>>12), byte(u>>4), byte(u&0x0f)
	}
	b := buf[:n:n]
	if itf8.Len(v) != n || itf8.Encode(b, v) != n {
		return false
	}
	for i := 0; i < n; i++ {
		if b[i] != ref[i] {
			return false
		}
	}
	got, dn, dok := itf8.Decode(b)
	return dok && got == v && dn == n
}

// c20ltfFast is the allocation-free form of the oracle in c20ltfValue for the 2^32-value
// sweeps: spec bytes computed inline (CRAM v3 section 2.3), Encode into a slice of exactly the
// spec length, Len, Decode of that slice. Any disagreement or panic sends the value down the
// slow path.
func c20ltfFast(v int64, buf, ref *[9]byte) (ok bool) {
	defer func() {
		if recover() != nil {
			ok = false
		}
	}()
	u := uint64(v)
	n := 9
	for k := 1; k <= 8; k++ {
		if u < uint64(1)<<uint(7*k) {
			n = k
			break
		}
	}
	w := u
	for i := n - 1; i >= 1; i-- {
		ref[i] = byte(w)
		w >>= 8
	}
	if n == 9 {
		ref[0] = 0xff
	} else {
		ref[0] = byte(0xff<<uint(9-n)) | byte(w)
	}
	b := buf[:n:n]
	if ltf8.Len(v) != n || ltf8.Encode(b, v) != n {
		return false
	}
	for i := 0; i < n; i++ {
		if b[i] != ref[i] {
			return false
		}
	}
	got, dn, dok := ltf8.Decode(b)
	return dok && got == v && dn == n
}

func c20ltfValue(c *Ctx, v int64) {
	ref := refimpl.LTF8(v)
	cas := c20case{Codec: "ltf8", Kind: "value", Value: v}
	class := fmt.Sprintf("len%d", len(ref))
	guard(c, "ltf8:value:"+class, cas, func() {
		if l := ltf8.Len(v); l != len(ref) {
			c.Violate("ltf8:Len:"+class, fmt.Sprintf("Len(%#x)=%d, spec %d", uint64(v), l, len(ref)), cas)
		}
		buf := make([]byte, len(ref))
		n := ltf8.Encode(buf, v)
		if n != len(ref) {
			c.Violate("ltf8:Encode-n:"+class, fmt.Sprintf("Encode(%#x) returned %d, spec %d", uint64(v), n, len(ref)), cas)
		}
		if !bytes.Equal(buf, ref) {
			c.Violate("ltf8:Encode-bytes:"+class, fmt.Sprintf("Encode(%#x)=% x, spec % x", uint64(v), buf, ref), cas)
		}
		got, dn, ok := ltf8.Decode(buf)
		if !ok || got != v || dn != n {
			c.Violate("ltf8:roundtrip:"+class, fmt.Sprintf("Decode(Encode(%#x)=% x) = (%#x,%d,%v)", uint64(v), buf, uint64(got), dn, ok), cas)
		}
		got, dn, ok = ltf8.Decode(ref)
		if !ok || got != v || dn != len(ref) {
			c.Violate("ltf8:Decode-spec-bytes:"+class, fmt.Sprintf("Decode(% x) = (%#x,%d,%v), want %#x", ref, uint64(got), dn, ok, uint64(v)), cas)
		}
	})
}

type countingReader struct {
	r *bytes.Reader
	n int
}

func (c *countingReader) Read(p []byte) (int, error) {
	n, err := c.r.Read(p)
	c.n += n
	return n, err
}

func toInts(b []byte) []int {
	r := make([]int, len(b))
	for i, x := range b {
		r[i] = int(x)
	}
	return r
}

func c20bytes(c *Ctx, codec string, b []byte) {
	cas := c20case{Codec: codec, Kind: "bytes", Bytes: toInts(b)}
	var ann int
	if len(b) > 0 {
		if codec == "itf8" {
			ann = refimpl.ITF8Len(b[0])
		} else {
			ann = refimpl.LTF8Len(b[0])
		}
	}
	class := fmt.Sprintf("ann%d-avail%d", ann, len(b))
	guard(c, codec+":bytes:"+class, cas, func() {
		exact := append(make([]byte, 0, len(b)), b...) // cap == len: reading past the input panics
		var v int64
		var n int
		var ok bool
		var ref int64
		if codec == "itf8" {
			v32, n1, ok1 := itf8.Decode(exact)
			v, n, ok = int64(v32), n1, ok1
		} else {
			v, n, ok = ltf8.Decode(exact)
		}
		if len(b) == 0 {
			if ok {
				c.Violate(codec+":Decode-empty", "Decode of no bytes reports ok", cas)
			}
			return
		}
		if n != ann {
			c.Violate(codec+":Decode-n:"+class, fmt.Sprintf("Decode(% x) announces n=%d, spec %d", b, n, ann), cas)
		}
		if ok != (len(b) >= ann) {
			c.Violate(codec+":Decode-ok:"+class, fmt.Sprintf("Decode(% x) ok=%v with %d of %d bytes", b, ok, len(b), ann), cas)
		}
		if ok && len(b) >= ann {
			if codec == "itf8" {
				ref = int64(refimpl.ITF8Decode(b))
			} else {
				ref = refimpl.LTF8Decode(b)
			}
			if v != ref {
				c.Violate(codec+":Decode-value:"+class, fmt.Sprintf("Decode(% x)=%#x, spec %#x", b, v, ref), cas)
			}
			// exactly n bytes must suffice (never reads beyond the announced length)
			short := append(make([]byte, 0, ann), b[:ann]...)
			var v2 int64
			var ok2 bool
			if codec == "itf8" {
				x, _, o := itf8.Decode(short)
				v2, ok2 = int64(x), o
			} else {
				v2, _, ok2 = ltf8.Decode(short)
			}
			if !ok2 || v2 != v {
				c.Violate(codec+":Decode-depends-on-tail:"+class, fmt.Sprintf("Decode(% x)=%#x but with only the announced bytes (%#x,%v)", b, v, v2, ok2), cas)
			}
		}
		// stream reader of package cram: consumes exactly the announced bytes
		cr := &countingReader{r: bytes.NewReader(b)}
		var sv int64
		var err error
		if codec == "itf8" {
			var x int32
			x, err = cram.VerifITF8(cr)
			sv = int64(x)
		} else {
			sv, err = cram.VerifLTF8(cr)
		}
		if len(b) >= ann {
			if err != nil || cr.n != ann || sv != ref {
				c.Violate(codec+":stream:"+class, fmt.Sprintf("stream read of % x: value %#x err %v consumed %d; spec value %#x consuming %d", b, sv, err, cr.n, ref, ann), cas)
			}
		} else if err == nil {
			c.Violate(codec+":stream-short:"+class, fmt.Sprintf("stream read of truncated % x (announces %d) returned %#x without error", b, ann, sv), cas)
		} else if err != io.ErrUnexpectedEOF && err != io.EOF {
			_ = err // any error is acceptable
		}
	})
}

func c20(c *Ctx) {
	c.Rule = "ITF-8: all 2^32 values in both tiers. LTF-8: thorough = all 2^32 low words under each of 19 high words (every length-class boundary above 2^32 with its neighbours, the sign boundary, mixed patterns) and every pair of adjacent byte positions through all 2^16 values on three backgrounds; both tiers: per length class the product of first-byte payload {0, all ones, alternating} x trailing bytes in {00,5a,80,ff}, +-2 around every class boundary, extremes. Each value: Len, Encode into an exact-size buffer, bytes vs CRAM spec encoder, Decode. Byte strings: all 256 first bytes x available length 0..9 x fillers {00,ff,a5} through Decode (exact-capacity slice) and the cram stream readers (counting reader). Non-trivial = multi-byte encodings / strings with announced length >= 2."
	c.Assume("refimpl/tf8.go implements CRAM v3 §2.3 correctly (independent of the library)")
	c.Assume("Go bounds checks turn any access beyond an exact-capacity buffer into a panic")
	if c.Replay != nil {
		var cas c20case
		if err := json.Unmarshal(c.Replay, &cas); err != nil {
			c.Infra = err.Error()
			return
		}
		switch {
		case cas.Kind == "value" && cas.Codec == "itf8":
			c20itfValue(c, int32(cas.Value))
		case cas.Kind == "value":
			c20ltfValue(c, cas.Value)
		default:
			b := make([]byte, len(cas.Bytes))
			for i, x := range cas.Bytes {
				b[i] = byte(x)
			}
			c20bytes(c, cas.Codec, b)
		}
		return
	}
	// ---- ITF-8 values
	if true { // the complete int32 domain costs ~5 s on 16 cores, so both tiers sweep it
		const chunks = 1 << 12
		var nontriv, failing int64
		parallel(chunks, func(i int) {
			lo := uint64(i) << 20
			var buf, ref [8]byte
			fails := 0
			for u := lo; u < lo+1<<20; u++ {
				if !c20itfFast(int32(uint32(u)), &buf, &ref) {
					// the slow path records what differs; after 16 failing values in this
					// 2^20-value shard the rest are only counted (every one is still evaluated)
					if fails++; fails <= 16 {
						c20itfValue(c, int32(uint32(u)))
					}
				}
			}
			atomic.AddInt64(&failing, int64(fails))
			if i == 0 {
				atomic.AddInt64(&nontriv, 1<<20-128)
			} else {
				atomic.AddInt64(&nontriv, 1<<20)
			}
		})
		c.Eval(1 << 32)
		c.NontrivialN(nontriv)
		c.AddExtra("itf8_values", int64(1)<<32)
		c.AddExtra("itf8_domain_complete", true)
		c.AddExtra("itf8_values_failing", failing)
	} else {
		set := map[int32]struct{}{}
		for u := uint32(0); u < 1<<16; u++ {
			set[int32(u)] = struct{}{}
			set[int32(u<<16)] = struct{}{}
		}
		for _, bg := range []uint32{0, 0xffffffff, 0xa5a5a5a5, 0x5a5a5a5a} {
			for pos := uint(0); pos < 8; pos++ {
				for nib := uint32(0); nib < 16; nib++ {
					set[int32(bg&^(0xf<<(4*pos))|nib<<(4*pos))] = struct{}{}
				}
			}
		}
		alpha := []uint32{0x00, 0x01, 0x0f, 0x10, 0x5a, 0x7f, 0x80, 0xa5, 0xf0, 0xff}
		for _, a := range alpha {
			for _, b := range alpha {
				for _, d := range alpha {
					for _, e := range alpha {
						set[int32(a<<24|b<<16|d<<8|e)] = struct{}{}
					}
				}
			}
		}
		for _, edge := range []int64{0, 1 << 7, 1 << 14, 1 << 21, 1 << 28, 1 << 31, 1<<32 - 1} {
			for d := int64(-2); d <= 2; d++ {
				set[int32(uint32(edge+d))] = struct{}{}
			}
		}
		vals := make([]int32, 0, len(set))
		for v := range set {
			vals = append(vals, v)
		}
		sort.Slice(vals, func(i, j int) bool { return uint32(vals[i]) < uint32(vals[j]) })
		var nt int64
		for _, v := range vals {
			c20itfValue(c, v)
			if uint32(v) >= 128 {
				nt++
			}
		}
		c.Eval(int64(len(vals)))
		c.NontrivialN(nt)
		c.AddExtra("itf8_values", int64(len(vals)))
	}
	c.Sample(c20case{Codec: "itf8", Kind: "value", Value: 0x12345678})
	// ---- LTF-8 values
	lset := map[int64]struct{}{}
	for n := 1; n <= 9; n++ {
		payloadBits := uint(0)
		if n < 8 {
			payloadBits = uint(8 - n)
		}
		heads := []uint64{0, (1 << payloadBits) - 1, 0x55 & ((1 << payloadBits) - 1)}
		tails := []uint64{0x00, 0x5a, 0x80, 0xff}
		idx := make([]int, n-1)
		for {
			for _, h := range heads {
				u := h
				for _, t := range idx {
					u = u<<8 | tails[t]
				}
				lset[int64(u)] = struct{}{}
			}
			k := 0
			for k < len(idx) {
				idx[k]++
				if idx[k] < len(tails) {
					break
				}
				idx[k] = 0
				k++
			}
			if k == len(idx) {
				break
			}
		}
	}
	for n := uint(1); n <= 8; n++ {
		for d := int64(-2); d <= 2; d++ {
			lset[int64(1)<<(7*n)+d] = struct{}{}
		}
	}
	for d := int64(0); d <= 2; d++ {
		lset[math.MinInt64+d] = struct{}{}
		lset[math.MaxInt64-d] = struct{}{}
		lset[-1-d] = struct{}{}
		lset[d] = struct{}{}
	}
	for v := range set32range() {
		lset[v] = struct{}{}
	}
	if c.Thorough {
		// every pair of adjacent byte positions takes all 2^16 values on three backgrounds
		var cnt int64
		parallel(7*3, func(i int) {
			pos, bgi := uint(i/3), i%3
			bg := []uint64{0, 0xffffffffffffffff, 0xa5a5a5a5a5a5a5a5}[bgi]
			var n int64
			for x := uint64(0); x < 1<<16; x++ {
				v := int64(bg&^(0xffff<<(8*pos)) | x<<(8*pos))
				c20ltfValue(c, v)
				if uint64(v) >= 128 {
					n++
				}
			}
			atomic.AddInt64(&cnt, n)
		})
		c.Eval(7 * 3 << 16)
		c.NontrivialN(cnt - 2) // the two backgrounds 0/ff.. coincide only at their own x; conservative
		c.AddExtra("ltf8_pair_sweep_values", int64(7*3<<16))
		// all 2^32 low words under each of a set of high words: every length-class boundary
		// that lies above 2^32 (2^35, 2^42, 2^49, 2^56) with its neighbours, the sign
		// boundary, and two mixed patterns
		highs := []uint32{0, 1, 7, 8, 9, 0x3ff, 0x400, 0x401, 0x1ffff, 0x20000, 0x20001, 0xffffff, 0x1000000, 0x1000001,
			0x7fffffff, 0x80000000, 0xffffffff, 0xa5a5a5a5, 0x5a5a5a5a}
		var lfail int64
		for _, h := range highs {
			h := h
			parallel(1<<12, func(i int) {
				lo := uint64(i) << 20
				var buf, ref [9]byte
				fails := 0
				for l := lo; l < lo+1<<20; l++ {
					v := int64(uint64(h)<<32 | l)
					if !c20ltfFast(v, &buf, &ref) {
						if fails++; fails <= 4 {
							c20ltfValue(c, v)
						}
					}
				}
				atomic.AddInt64(&lfail, int64(fails))
			})
		}
		c.Eval(int64(len(highs)) << 32)
		c.NontrivialN(int64(len(highs))<<32 - 128)
		c.AddExtra("ltf8_low_word_sweeps", int64(len(highs)))
		c.AddExtra("ltf8_sweep_values_failing", lfail)
	}
	lvals := make([]int64, 0, len(lset))
	for v := range lset {
		lvals = append(lvals, v)
	}
	sort.Slice(lvals, func(i, j int) bool { return uint64(lvals[i]) < uint64(lvals[j]) })
	var lnt int64
	for _, v := range lvals {
		c20ltfValue(c, v)
		if uint64(v) >= 128 {
			lnt++
		}
	}
	c.Eval(int64(len(lvals)))
	c.NontrivialN(lnt)
	c.AddExtra("ltf8_values", int64(len(lvals)))
	c.Sample(c20case{Codec: "ltf8", Kind: "value", Value: -1})
	// ---- byte strings
	var nb, nbt int64
	for _, codec := range []string{"itf8", "ltf8"} {
		for b0 := 0; b0 < 256; b0++ {
			for avail := 0; avail <= 9; avail++ {
				for _, fill := range []byte{0x00, 0xff, 0xa5} {
					if avail == 0 && (b0 != 0 || fill != 0) {
						continue
					}
					b := make([]byte, avail)
					for i := range b {
						b[i] = fill
					}
					if avail > 0 {
						b[0] = byte(b0)
					}
					c20bytes(c, codec, b)
					nb++
					if avail > 0 && b0 >= 0x80 && (avail > 1 || fill == 0) {
						nbt++
					}
				}
			}
		}
	}
	c.Eval(nb)
	c.NontrivialN(nbt)
	c.AddExtra("byte_strings", nb)
	c.Sample(c20case{Codec: "itf8", Kind: "bytes", Bytes: []int{0xf1, 0xa5, 0xa5}})
}

// set32range returns a few values around the int32 range inside int64.
func set32range() map[int64]struct{} {
	m := map[int64]struct{}{}
	for _, e := range []int64{math.MaxInt32, math.MinInt32, math.MaxUint32} {
		for d := int64(-2); d <= 2; d++ {
			m[e+d] = struct{}{}
		}
	}
	return m
}
