package main

import (
	"bytes"
	"encoding/json"
	"fmt"
	"io"
	"sort"
	"sync/atomic"

	"github.com/biogo/hts/bam"
	"github.com/biogo/hts/bgzf"
	"github.com/biogo/hts/bgzf/index"
	"github.com/biogo/hts/csi"
	"github.com/biogo/hts/sam"
	"github.com/biogo/hts/tabix"
)

// C04 (index queries are complete) and C15 (index serialisation round trip and statistics)
// share the generator of index states: sorted sequences of records added with real Add calls.

func init() {
	isoHandlers["c15"] = func(c *Ctx, raw json.RawMessage) {
		var cas c04case
		if err := json.Unmarshal(raw, &cas); err != nil {
			c.Infra = err.Error()
			return
		}
		var e, n int64
		c04run(c, cas, true, &e, &n)
		c.Eval(e)
		c.NontrivialN(n)
	}
	register("C04", "index", func(c *Ctx) { c04(c, false) })
	register("C15", "idxrt", func(c *Ctx) { c04(c, true) })
}

type irec struct {
	Ref      int  `json:"ref"` // -1 = unplaced
	Beg      int  `json:"beg"`
	End      int  `json:"end"`
	Unmapped bool `json:"unmapped,omitempty"`
}

type c04case struct {
	Kind     string `json:"kind"` // bai, tabix, csi
	MinShift int    `json:"min_shift,omitempty"`
	Depth    int    `json:"depth,omitempty"`
	Recs     []irec `json:"recs"`
	Stage    string `json:"stage,omitempty"` // "", "roundtrip", "merge:<strategy>"
	Query    []int  `json:"query,omitempty"` // ref, beg, end
	CSIv1    bool   `json:"csi_v1,omitempty"`
}

// idx abstracts the three index kinds.
type idx interface {
	add(r irec, c bgzf.Chunk) error
	chunks(ref, beg, end int) ([]bgzf.Chunk, error)
	merge(s index.MergeStrategy)
	write() ([]byte, error)
	read(b []byte) (idx, error)
	readFrom(r io.Reader) (idx, error)
	numRefs() int
	refStats(id int) (index.ReferenceStats, bool)
	unmapped() (uint64, bool)
}

// ---- BAI

var c04refs, c04hdr = func() ([]*sam.Reference, *sam.Header) {
	var refs []*sam.Reference
	for i := 0; i < 4; i++ {
		r, _ := sam.NewReference(fmt.Sprintf("chr%d", i), "", "", 1<<29-1, nil, nil)
		refs = append(refs, r)
	}
	h, _ := sam.NewHeader(nil, refs)
	return refs, h
}()

type baiIdx struct{ x *bam.Index }

func samRecord(r irec) *sam.Record {
	rec := &sam.Record{Name: "r", Pos: r.Beg, MatePos: -1, MapQ: 30}
	if r.Ref >= 0 {
		rec.Ref = c04refs[r.Ref]
	} else {
		rec.Pos = -1
	}
	if r.Unmapped || r.Ref < 0 {
		rec.Flags = sam.Unmapped
	} else {
		n := r.End - r.Beg
		for n > 0 {
			k := n
			if k > 1<<28-1 {
				k = 1<<28 - 1
			}
			rec.Cigar = append(rec.Cigar, sam.NewCigarOp(sam.CigarMatch, k))
			n -= k
		}
	}
	return rec
}

func (b baiIdx) add(r irec, c bgzf.Chunk) error { return b.x.Add(samRecord(r), c) }
func (b baiIdx) chunks(ref, beg, end int) ([]bgzf.Chunk, error) {
	return b.x.Chunks(c04refs[ref], beg, end)
}
func (b baiIdx) merge(s index.MergeStrategy) { b.x.MergeChunks(s) }
func (b baiIdx) write() ([]byte, error) {
	var buf bytes.Buffer
	err := bam.WriteIndex(&buf, b.x)
	return buf.Bytes(), err
}
func (b baiIdx) read(d []byte) (idx, error) { return b.readFrom(bytes.NewReader(d)) }
func (b baiIdx) readFrom(r io.Reader) (idx, error) {
	x, err := bam.ReadIndex(r)
	if err != nil || x == nil {
		return nil, fmt.Errorf("ReadIndex: %v (index %v)", err, x)
	}
	return baiIdx{x}, nil
}
func (b baiIdx) numRefs() int                                 { return b.x.NumRefs() }
func (b baiIdx) refStats(id int) (index.ReferenceStats, bool) { return b.x.ReferenceStats(id) }
func (b baiIdx) unmapped() (uint64, bool)                     { return b.x.Unmapped() }

// ---- tabix

type tbxIdx struct{ x *tabix.Index }

type tbxRec struct{ r irec }

func (t tbxRec) RefName() string { return fmt.Sprintf("chr%d", t.r.Ref) }
func (t tbxRec) Start() int      { return t.r.Beg }
func (t tbxRec) End() int        { return t.r.End }

func (t tbxIdx) add(r irec, c bgzf.Chunk) error {
	return t.x.Add(tbxRec{r}, c, r.Ref >= 0, !r.Unmapped && r.Ref >= 0)
}
func (t tbxIdx) chunks(ref, beg, end int) ([]bgzf.Chunk, error) {
	return t.x.Chunks(fmt.Sprintf("chr%d", ref), beg, end)
}
func (t tbxIdx) merge(s index.MergeStrategy) { t.x.MergeChunks(s) }
func (t tbxIdx) write() ([]byte, error) {
	var buf bytes.Buffer
	err := tabix.WriteTo(&buf, t.x)
	return buf.Bytes(), err
}
func (t tbxIdx) read(d []byte) (idx, error) { return t.readFrom(bytes.NewReader(d)) }
func (t tbxIdx) readFrom(r io.Reader) (idx, error) {
	x, err := tabix.ReadFrom(r)
	if err != nil || x == nil {
		return nil, fmt.Errorf("ReadFrom: %v (index %v)", err, x)
	}
	return tbxIdx{x}, nil
}
func (t tbxIdx) numRefs() int                                 { return t.x.NumRefs() }
func (t tbxIdx) refStats(id int) (index.ReferenceStats, bool) { return t.x.ReferenceStats(id) }
func (t tbxIdx) unmapped() (uint64, bool)                     { return t.x.Unmapped() }

// ---- CSI

type csiIdx struct{ x *csi.Index }

type csiRec struct{ r irec }

func (t csiRec) RefID() int { return t.r.Ref }
func (t csiRec) Start() int { return t.r.Beg }
func (t csiRec) End() int   { return t.r.End }

func (t csiIdx) add(r irec, c bgzf.Chunk) error {
	if r.Ref < 0 {
		return t.x.Add(csiRec{irec{Ref: -1, Beg: -1, End: 0}}, c, false, false)
	}
	return t.x.Add(csiRec{r}, c, !r.Unmapped, true)
}
func (t csiIdx) chunks(ref, beg, end int) ([]bgzf.Chunk, error) {
	return t.x.Chunks(ref, beg, end), nil
}
func (t csiIdx) merge(s index.MergeStrategy) { t.x.MergeChunks(s) }
func (t csiIdx) write() ([]byte, error) {
	var buf bytes.Buffer
	err := csi.WriteTo(&buf, t.x)
	return buf.Bytes(), err
}
func (t csiIdx) read(d []byte) (idx, error) { return t.readFrom(bytes.NewReader(d)) }
func (t csiIdx) readFrom(r io.Reader) (idx, error) {
	x, err := csi.ReadFrom(r)
	if err != nil || x == nil {
		return nil, fmt.Errorf("ReadFrom: %v (index %v)", err, x)
	}
	return csiIdx{x}, nil
}
func (t csiIdx) numRefs() int                                 { return t.x.NumRefs() }
func (t csiIdx) refStats(id int) (index.ReferenceStats, bool) { return t.x.ReferenceStats(id) }
func (t csiIdx) unmapped() (uint64, bool)                     { return t.x.Unmapped() }

func newIdx(cas c04case) idx {
	switch cas.Kind {
	case "bai":
		return baiIdx{&bam.Index{}}
	case "tabix":
		return tbxIdx{tabix.New()}
	}
	x := csi.New(cas.MinShift, cas.Depth)
	if cas.CSIv1 {
		x.Version = 1
	}
	return csiIdx{x}
}

// chunkOf gives record k its file chunk: consecutive, two records per block, so that chunk
// ends appear as same-block offsets, block ends and next-block starts.
func chunkOf(k int) bgzf.Chunk {
	off := func(k int) bgzf.Offset { return bgzf.Offset{File: int64(k/2) * 1000, Block: uint16(k%2) * 50} }
	return bgzf.Chunk{Begin: off(k), End: off(k + 1)}
}

func covered(c bgzf.Chunk, by []bgzf.Chunk) bool {
	lo, hi := vo(c.Begin), vo(c.End)
	// by is sorted by Begin (checked by the caller); sweep
	for _, b := range by {
		if vo(b.Begin) <= lo && vo(b.End) > lo {
			lo = vo(b.End)
			if lo >= hi {
				return true
			}
		}
	}
	return lo >= hi
}

var c04strategies = []struct {
	name string
	s    index.MergeStrategy
}{{"Identity", index.Identity}, {"Adjacent", index.Adjacent}, {"Squash", index.Squash}, {"Compressor0", index.CompressorStrategy(0)}, {"Compressor65536", index.CompressorStrategy(1 << 16)}}

// geometry-dependent alphabets
func posAlphabet(ms, d int) []int {
	max := 1<<uint(ms+3*d) - 1 // positions 0..max-1 are indexable (End <= max-1)
	T := 1 << uint(ms)
	set := map[int]bool{}
	add := func(v int) {
		if v >= 0 && v <= max-1 {
			set[v] = true
		}
	}
	for _, v := range []int{0, 1, T - 1, T, T + 1, 2 * T} {
		add(v)
	}
	for l := 1; l < d; l++ {
		w := 1 << uint(ms+3*l)
		add(w - 1)
		add(w)
		add(w + 1)
	}
	add(max - 2)
	add(max - 1)
	var out []int
	for v := range set {
		out = append(out, v)
	}
	sort.Ints(out)
	return out
}

func recAlphabet(ms, d int, reduced bool) []irec {
	max := 1<<uint(ms+3*d) - 1
	T := 1 << uint(ms)
	lens := []int{1, 2, T - 1, T, T + 1, 1 << uint(ms+3), 1<<uint(ms+3*(d-1)) + 1}
	if reduced {
		lens = []int{1, T, T + 1, 1<<uint(ms+3*(d-1)) + 1}
	}
	starts := posAlphabet(ms, d)
	if reduced {
		var s []int
		for i, v := range starts {
			if i%3 == 0 || v == T-1 || v == T {
				s = append(s, v)
			}
		}
		starts = s
	}
	seen := map[[2]int]bool{}
	var out []irec
	for _, b := range starts {
		for _, l := range lens {
			e := b + l
			if l < 1 || e > max-1 || seen[[2]int{b, e}] {
				continue
			}
			seen[[2]int{b, e}] = true
			out = append(out, irec{Beg: b, End: e})
		}
	}
	return out
}

func queryAlphabet(ms, d int) [][2]int {
	ps := posAlphabet(ms, d)
	max := 1<<uint(ms+3*d) - 1
	T := 1 << uint(ms)
	seen := map[[2]int]bool{}
	var q [][2]int
	add := func(b, e int) {
		if e > max {
			e = max
		}
		if b < e && !seen[[2]int{b, e}] {
			seen[[2]int{b, e}] = true
			q = append(q, [2]int{b, e})
		}
	}
	for _, p := range ps {
		add(p, p+1)
		add(p, p+T+1)
	}
	add(0, max)
	add(ps[len(ps)/2], max)
	add(T, 2*T)
	add(T-1, T)
	return q
}

// sequences enumerates sorted record sequences with their reference patterns.
func sequences(full, reduced []irec, thorough bool) [][]irec {
	var out [][]irec
	with := func(r irec, ref int) irec { r.Ref = ref; return r }
	for _, a := range full {
		out = append(out, []irec{with(a, 0)})
		um := with(a, 0)
		um.Unmapped, um.End = true, um.Beg+1
		out = append(out, []irec{um}, []irec{with(a, 0), {Ref: -1}})
	}
	for _, a := range full {
		for _, b := range full {
			if a.Beg <= b.Beg {
				out = append(out, []irec{with(a, 0), with(b, 0)})
			}
			out = append(out, []irec{with(a, 0), with(b, 1)})
			out = append(out, []irec{with(a, 0), with(b, 2)}) // reference 1 has no records
		}
	}
	three := reduced
	if !thorough {
		var t []irec
		for i, r := range reduced {
			if i%3 == 0 {
				t = append(t, r)
			}
		}
		three = t
	}
	for _, a := range three {
		for _, b := range three {
			for _, d := range three {
				if a.Beg <= b.Beg && b.Beg <= d.Beg {
					out = append(out, []irec{with(a, 0), with(b, 0), with(d, 0)})
				}
				if a.Beg <= b.Beg {
					out = append(out, []irec{with(a, 0), with(b, 0), with(d, 2)})
				}
				if b.Beg <= d.Beg {
					out = append(out, []irec{with(a, 0), with(b, 1), with(d, 1)})
				}
				out = append(out, []irec{with(a, 0), with(b, 1), with(d, 3)})
			}
		}
	}
	return out
}

func overlaps(r irec, ref, qb, qe int) bool {
	return r.Ref == ref && r.Beg < qe && qb < r.End
}

func posClass(v, ms int) string {
	T := 1 << uint(ms)
	switch {
	case v%T == 0:
		return "tile-aligned"
	case v%T == T-1:
		return "tile-end"
	}
	return "inside-tile"
}

// build adds the records; it reports a violation and returns nil if Add fails or panics.
func c04build(c *Ctx, cas c04case) (x idx) {
	ok := guard(c, cas.Kind+":Add", cas, func() {
		x = newIdx(cas)
		for k, r := range cas.Recs {
			if err := x.add(r, chunkOf(k)); err != nil {
				c.Violate(cas.Kind+":Add:error", fmt.Sprintf("%s index: Add of record %d of the sorted sequence %+v failed: %v", cas.Kind, k, cas.Recs, err), cas)
				x = nil
				return
			}
		}
	})
	if !ok {
		return nil
	}
	return x
}

// c04queries checks completeness of x for every query; stage names what was done to x.
func c04queries(c *Ctx, cas c04case, x idx, stage string, queries [][2]int, nrefs int, evals, nontriv *int64) {
	cas.Stage = stage
	guard(c, cas.Kind+":Chunks:"+stage, cas, func() {
		for ref := 0; ref < nrefs; ref++ {
			for _, q := range queries {
				got, err := x.chunks(ref, q[0], q[1])
				atomic.AddInt64(evals, 1)
				for i := 1; i < len(got); i++ {
					if vo(got[i-1].Begin) > vo(got[i].Begin) {
						cc := cas
						cc.Query = []int{ref, q[0], q[1]}
						c.Violate(cas.Kind+":Chunks:unsorted:"+stage, fmt.Sprintf("Chunks(ref %d, %d, %d) returned chunks not sorted by Begin: %v", ref, q[0], q[1], got), cc)
						return
					}
				}
				hit := false
				for k, r := range cas.Recs {
					if r.Ref < 0 || !overlaps(r, ref, q[0], q[1]) {
						continue
					}
					hit = true
					if err != nil || !covered(chunkOf(k), got) {
						cc := cas
						cc.Query = []int{ref, q[0], q[1]}
						what := "missing"
						if err != nil {
							what = "error"
						}
						st := stage
						if len(st) > 6 && st[:6] == "merge:" {
							st = "merged"
						}
						c.Violate(fmt.Sprintf("%s:Chunks:%s:%s:query-begin-%s", cas.Kind, what, st, posClass(q[0], cas.MinShift)),
							fmt.Sprintf("%s index (%s) built from %+v: Chunks(ref %d, %d, %d) = %v, %v does not cover record %d [%d,%d) whose chunk is %v", cas.Kind, stage, cas.Recs, ref, q[0], q[1], got, err, k, r.Beg, r.End, chunkOf(k)), cc)
						return
					}
				}
				if hit {
					atomic.AddInt64(nontriv, 1)
				}
			}
		}
	})
}

func c04(c *Ctx, roundtripOnly bool) {
	if roundtripOnly {
		c.Rule = "index states: the C04 generator (sorted sequences of <=3 records over boundary-biased interval alphabets on references 0..3 incl. references without records, placed-unmapped and unplaced records) for BAI, tabix (3 header settings) and CSI v1/v2 x aux {nil, 5 bytes} on geometries (14,5),(12,4),(1,2),(3,3). For every state (also built with a query and a write between the Adds): write -> read -> write gives identical bytes, also when the reader's source delivers one byte per Read call; NumRefs, per-reference mapped/unmapped counts and chunk spans and the unplaced count are equal on both sides and equal the true counts of the records added; every C04 query answers identically on the re-read index. Non-trivial: states with >=2 records or a reference without records."
	} else {
		c.Rule = "BAI, tabix and CSI (geometries (14,5),(12,4),(1,2),(3,3); thorough adds (14,6) on the reduced alphabet): every sorted sequence of 1-2 records over the full interval alphabet (starts at 0,1,T-1,T,T+1,2T, every bin-level boundary +-1, limit-2, limit-1; lengths 1,2,T-1,T,T+1,8T,largest level+1) and every sequence of 3 over a reduced alphabet, on reference patterns (0),(0,0),(0,1),(0,2: reference 1 empty),(0,0,0),(0,0,2),(0,1,1),(0,1,3), plus placed-unmapped and unplaced records; chunks are consecutive synthetic virtual offsets (same-block, block-end and next-block forms). For every state and every query interval ([p,p+1) and [p,p+T+1) for every alphabet position p, plus whole-range and tile-edge queries) on every reference: Add never fails or panics, and every record overlapping the query is covered by the union of the returned chunks (an error or empty answer implies no overlap); repeated on an index that was queried and written between the Adds, after write->read and after MergeChunks with Identity, Adjacent, Squash, Compressor(0), Compressor(65536) (BAI: also with the Index's MergeStrategy field set to Adjacent, Squash, Compressor(65536) at query time). Non-trivial: (state, query) pairs with at least one overlapping record."
	}
	if c.Replay != nil {
		var cas c04case
		if err := json.Unmarshal(c.Replay, &cas); err != nil {
			c.Infra = err.Error()
			return
		}
		c04run(c, cas, roundtripOnly, new(int64), new(int64))
		return
	}
	type cfg struct {
		kind  string
		ms, d int
	}
	cfgs := []cfg{{"bai", 14, 5}, {"tabix", 14, 5}, {"csi", 14, 5}, {"csi", 12, 4}, {"csi", 1, 2}, {"csi", 3, 3}}
	if c.Thorough && !roundtripOnly {
		cfgs = append(cfgs, cfg{"csi", 14, 6})
	}
	var evals, nontriv, states int64
	if roundtripOnly {
		// read-back of written indexes runs in isolated worker processes: a reader that is
		// thrown out of step (by a defect) asks for absurd amounts of memory, which a Go
		// process cannot survive; here that is a violation attributed to the case
		var cases []interface{}
		var kinds []string
		for _, g := range cfgs {
			full := recAlphabet(g.ms, g.d, false)
			red := recAlphabet(g.ms, g.d, true)
			if !c.Thorough {
				full = red
			}
			seqs := sequences(full, red, c.Thorough)
			for i := range seqs {
				cas := c04case{Kind: g.kind, MinShift: g.ms, Depth: g.d, Recs: seqs[i]}
				cases = append(cases, cas)
				kinds = append(kinds, g.kind)
				if g.kind == "csi" && i%5 == 0 {
					cas.CSIv1 = true
					cases = append(cases, cas)
					kinds = append(kinds, g.kind)
				}
			}
			states += int64(len(seqs))
			c.AddExtra(fmt.Sprintf("states_%s_%d_%d", g.kind, g.ms, g.d), int64(len(seqs)))
			c.Sample(c04case{Kind: g.kind, MinShift: g.ms, Depth: g.d, Recs: seqs[len(seqs)/2]})
		}
		isoOOMIsViolation = true
		runIsolated(c, "c15", cases, func(i int) string { return kinds[i] + ":roundtrip" }, 3072)
		c.AddStates(states, states*2, states)
		return
	}
	for _, g := range cfgs {
		full := recAlphabet(g.ms, g.d, false)
		red := recAlphabet(g.ms, g.d, true)
		if !c.Thorough || g.d >= 6 {
			// quick: pairs over the reduced alphabet (one record per level x boundary class);
			// the depth-6 geometry too: its whole-range queries walk ~300 000 bins each
			full = red
		}
		seqs := sequences(full, red, c.Thorough && g.d < 6)
		parallel(len(seqs), func(i int) {
			cas := c04case{Kind: g.kind, MinShift: g.ms, Depth: g.d, Recs: seqs[i]}
			c04run(c, cas, roundtripOnly, &evals, &nontriv)
			if roundtripOnly && g.kind == "csi" && i%5 == 0 {
				cas.CSIv1 = true
				c04run(c, cas, roundtripOnly, &evals, &nontriv)
			}
		})
		states += int64(len(seqs))
		c.AddExtra(fmt.Sprintf("states_%s_%d_%d", g.kind, g.ms, g.d), int64(len(seqs)))
		c.Sample(c04case{Kind: g.kind, MinShift: g.ms, Depth: g.d, Recs: seqs[len(seqs)/2]})
	}
	c.Eval(evals)
	c.NontrivialN(nontriv)
	c.AddStates(states, states*2, states)
}

func c04run(c *Ctx, cas c04case, roundtripOnly bool, evals, nontriv *int64) {
	queries := queryAlphabet(cas.MinShift, cas.Depth)
	nrefs := 0
	for _, r := range cas.Recs {
		if r.Ref+1 > nrefs {
			nrefs = r.Ref + 1
		}
	}
	if cas.Query != nil {
		queries = [][2]int{{cas.Query[1], cas.Query[2]}}
	}
	x := c04build(c, cas)
	if x == nil {
		return
	}
	// the same records added to one index object that is queried and written between the Adds
	// (a query or a write sorts the bins; later Adds must leave the index consistent again)
	var xi idx
	if len(cas.Recs) >= 2 {
		guard(c, cas.Kind+":Add:interleaved", cas, func() {
			z := newIdx(cas)
			for k, r := range cas.Recs {
				if err := z.add(r, chunkOf(k)); err != nil {
					c.Violate(cas.Kind+":Add:error:interleaved", fmt.Sprintf("%s index: Add of record %d of %+v failed after a query and a write: %v", cas.Kind, k, cas.Recs, err), cas)
					return
				}
				if k < len(cas.Recs)-1 {
					z.chunks(0, 0, 1<<uint(cas.MinShift))
					z.write()
				}
			}
			xi = z
		})
	}
	if roundtripOnly {
		c15check(c, cas, x, queries, nrefs, evals, nontriv)
		if xi != nil {
			ic := cas
			ic.Stage = "interleaved"
			c15check(c, ic, xi, queries, nrefs, evals, nontriv)
		}
		return
	}
	c04queries(c, cas, x, "built", queries, nrefs, evals, nontriv)
	if xi != nil {
		c04queries(c, cas, xi, "interleaved", queries, nrefs, evals, nontriv)
	}
	// write -> read
	var y idx
	guard(c, cas.Kind+":roundtrip", cas, func() {
		b, err := x.write()
		if err != nil {
			c.Violate(cas.Kind+":write-error", fmt.Sprintf("writing the index built from %+v: %v", cas.Recs, err), cas)
			return
		}
		y, err = x.read(b)
		if err != nil {
			c.Violate(cas.Kind+":read-error", fmt.Sprintf("re-reading the index built from %+v: %v", cas.Recs, err), cas)
			y = nil
		}
	})
	if y != nil {
		c04queries(c, cas, y, "roundtrip", queries, nrefs, evals, nontriv)
	}
	for _, s := range c04strategies {
		if len(cas.Recs) < 2 {
			break // a single record has a single chunk per bin: nothing to merge
		}
		z := c04build(c, cas)
		if z == nil {
			return
		}
		ok := guard(c, cas.Kind+":MergeChunks:"+s.name, cas, func() { z.merge(s.s) })
		if ok {
			c04queries(c, cas, z, "merge:"+s.name, queries, nrefs, evals, nontriv)
			// bam.Index also applies its exported MergeStrategy field to every answer
			if b, isBAI := z.(baiIdx); isBAI && (s.name == "Identity" || s.name == "Squash" || s.name == "Compressor0") {
				for _, q := range c04strategies {
					if q.name == "Identity" || q.name == "Compressor0" {
						continue
					}
					b.x.MergeStrategy = q.s
					c04queries(c, cas, z, "merge:"+s.name+"+query-time-"+q.name, queries, nrefs, evals, nontriv)
				}
				b.x.MergeStrategy = nil
			}
		}
	}
}
