package main

import (
	"encoding/binary"
	"fmt"
	"sort"
	"sync/atomic"

	"verif/refimpl"
)

// The bin an index ASSIGNS to a record (as opposed to what the bin function returns when asked):
// records are added through the public Add of bam.Index / csi.Index, the index is written, the
// written bytes are parsed independently (SAM v1 section 5.2, CSI specification) and the set of
// bin numbers per reference must be exactly the specification's reg2bin of each record added.

// parseIndexBins returns, per reference, the sorted bin numbers found in a BAI or CSI file,
// without the statistics pseudo-bin.
func parseIndexBins(kind string, b []byte, depth int) ([][]int, error) {
	p := 0
	need := func(n int) error {
		if p+n > len(b) {
			return fmt.Errorf("index truncated at %d (+%d of %d)", p, n, len(b))
		}
		return nil
	}
	i32 := func() (int, error) {
		if err := need(4); err != nil {
			return 0, err
		}
		v := int(int32(binary.LittleEndian.Uint32(b[p:])))
		p += 4
		return v, nil
	}
	if err := need(4); err != nil {
		return nil, err
	}
	p = 4
	pseudo := 37450
	if kind == "csi" {
		pseudo = ((1<<uint((depth+1)*3))-1)/7 + 1
		if _, err := i32(); err != nil { // min_shift
			return nil, err
		}
		if _, err := i32(); err != nil { // depth
			return nil, err
		}
		la, err := i32()
		if err != nil || la < 0 || need(la) != nil {
			return nil, fmt.Errorf("bad l_aux")
		}
		p += la
	}
	nref, err := i32()
	if err != nil || nref < 0 || nref > 1<<16 {
		return nil, fmt.Errorf("bad n_ref")
	}
	out := make([][]int, nref)
	for r := 0; r < nref; r++ {
		nbin, err := i32()
		if err != nil || nbin < 0 {
			return nil, fmt.Errorf("bad n_bin")
		}
		for k := 0; k < nbin; k++ {
			if err := need(4); err != nil {
				return nil, err
			}
			bin := int(binary.LittleEndian.Uint32(b[p:]))
			p += 4
			if kind == "csi" {
				if err := need(8); err != nil {
					return nil, err
				}
				p += 8         // loffset
				if b[3] == 2 { // the library's version 2 carries a 64-bit record count per bin
					if err := need(8); err != nil {
						return nil, err
					}
					p += 8
				}
			}
			nch, err := i32()
			if err != nil || nch < 0 || need(16*nch) != nil {
				return nil, fmt.Errorf("bad n_chunk")
			}
			p += 16 * nch
			if bin != pseudo {
				out[r] = append(out[r], bin)
			}
		}
		if kind != "csi" {
			nint, err := i32()
			if err != nil || nint < 0 || need(8*nint) != nil {
				return nil, fmt.Errorf("bad n_intv")
			}
			p += 8 * nint
		}
		sort.Ints(out[r])
	}
	return out, nil
}

func c16assignedOne(c *Ctx, cas c04case) {
	x := c04build(c, cas)
	if x == nil {
		return
	}
	guard(c, "assigned:"+cas.Kind, cas, func() {
		b, err := x.write()
		if err != nil {
			c.Violate("assigned:"+cas.Kind+":write-error", fmt.Sprintf("writing the index built from %+v: %v", cas.Recs, err), cas)
			return
		}
		got, err := parseIndexBins(cas.Kind, b, cas.Depth)
		if err != nil {
			c.Violate("assigned:"+cas.Kind+":unparseable", fmt.Sprintf("the written index of %+v does not parse: %v", cas.Recs, err), cas)
			return
		}
		nref := 0
		for _, r := range cas.Recs {
			if r.Ref+1 > nref {
				nref = r.Ref + 1
			}
		}
		want := make([]map[int]bool, nref)
		for _, r := range cas.Recs {
			if r.Ref < 0 {
				continue
			}
			if want[r.Ref] == nil {
				want[r.Ref] = map[int]bool{}
			}
			if cas.Kind == "csi" {
				want[r.Ref][refimpl.CSIReg2bin(int64(r.Beg), int64(r.End), cas.MinShift, cas.Depth)] = true
			} else {
				want[r.Ref][refimpl.Reg2bin(r.Beg, r.End)] = true
			}
		}
		for ref := 0; ref < nref; ref++ {
			var w []int
			for k := range want[ref] {
				w = append(w, k)
			}
			sort.Ints(w)
			var g []int
			if ref < len(got) {
				g = got[ref]
			}
			if fmt.Sprint(g) != fmt.Sprint(w) {
				c.Violate("assigned:"+cas.Kind+":bins-differ", fmt.Sprintf("%s index (minShift %d, depth %d) built by Add from %+v holds bins %v for reference %d; the specification's reg2bin of the records gives %v", cas.Kind, cas.MinShift, cas.Depth, cas.Recs, g, ref, w), cas)
				return
			}
		}
	})
}

// c16assigned enumerates all sorted pairs (and single records) over the C04 interval alphabet.
func c16assigned(c *Ctx) (evals int64) {
	type cfg struct {
		kind  string
		ms, d int
	}
	for _, g := range []cfg{{"bai", 14, 5}, {"csi", 14, 5}, {"csi", 12, 4}, {"csi", 1, 2}, {"csi", 3, 3}, {"csi", 14, 6}} {
		recs := recAlphabet(g.ms, g.d, !c.Thorough)
		var cases []c04case
		for _, a := range recs {
			cases = append(cases, c04case{Kind: g.kind, MinShift: g.ms, Depth: g.d, Recs: []irec{a}})
			for _, b := range recs {
				if a.Beg <= b.Beg {
					cases = append(cases, c04case{Kind: g.kind, MinShift: g.ms, Depth: g.d, Recs: []irec{a, b}})
				}
				b1 := b
				b1.Ref = 1
				cases = append(cases, c04case{Kind: g.kind, MinShift: g.ms, Depth: g.d, Recs: []irec{a, b1}})
			}
		}
		parallel(len(cases), func(i int) { c16assignedOne(c, cases[i]) })
		atomic.AddInt64(&evals, int64(len(cases)))
		c.AddExtra(fmt.Sprintf("assigned_bin_states_%s_%d_%d", g.kind, g.ms, g.d), int64(len(cases)))
	}
	return evals
}
