package main

import (
	"bytes"
	"encoding/json"
	"fmt"
	"io"
	"net/url"
	"sort"
	"strings"
	"sync"
	"sync/atomic"
	"time"

	"github.com/biogo/hts/bam"
	"github.com/biogo/hts/sam"

	"verif/faultio"
)

func init() {
	register("C18", "merger", c18)
	isoHandlers["c18"] = func(c *Ctx, raw json.RawMessage) {
		var cas c18case
		if err := json.Unmarshal(raw, &cas); err != nil {
			panic(err)
		}
		c18one(c, cas)
	}
}

// One merge input: a header variant (reference name list), a declared sort order and a subset
// of the record alphabet, sorted in the declared order.
type mInput struct {
	Refs []string `json:"refs"`
	Recs []int    `json:"recs"` // indexes into the record alphabet
}

type c18case struct {
	Order  string   `json:"order"` // unknown-nil, unknown-custom, unsorted, queryname, coordinate
	Inputs []mInput `json:"inputs"`
	FailAt int      `json:"fail_at,omitempty"` // j-th underlying Read of input FailIn fails (0 = none)
	FailIn int      `json:"fail_in,omitempty"`
}

// record alphabet: (name rank, reference index in the input's header or -1, position, mate reference or -1)
type mrec struct {
	rank       int
	ref, pos   int
	mate, mpos int
	mapq       int
}

var mAlphabet = []mrec{
	{rank: 1, ref: 0, pos: 10, mate: -1, mpos: -1, mapq: 50},
	{rank: 2, ref: 0, pos: 20, mate: 1, mpos: 7, mapq: 10},
	{rank: 3, ref: 1, pos: 5, mate: -1, mpos: -1, mapq: 40},
	{rank: 4, ref: 1, pos: 30, mate: 0, mpos: 3, mapq: 20},
	{rank: 5, ref: -1, pos: -1, mate: -1, mpos: -1, mapq: 30},
	{rank: 6, ref: -1, pos: -1, mate: 1, mpos: 9, mapq: 0}, // no reference of its own, a placed mate
}

func mName(rank, input int) string { return fmt.Sprintf("n%d%c", rank, 'a'+input) }

type expRec struct {
	name             string
	input            int
	refName, mateRef string
	pos, mapq        int
}

func orderOf(o string) sam.SortOrder {
	switch o {
	case "unsorted":
		return sam.Unsorted
	case "queryname":
		return sam.QueryName
	case "coordinate":
		return sam.Coordinate
	}
	return sam.UnknownOrder
}

var bamCache sync.Map

// inputBAM writes one input with the library's writer (cached).
func inputBAM(in mInput, order string, id int) ([]byte, []expRec) {
	key := fmt.Sprintf("%v|%v|%s|%d", in.Refs, in.Recs, order, id)
	type val struct {
		b []byte
		e []expRec
	}
	if v, ok := bamCache.Load(key); ok {
		return v.(val).b, v.(val).e
	}
	var refs []*sam.Reference
	for i, n := range in.Refs {
		r, _ := sam.NewReference(n, "", "", 1000+100*int(n[0]-'a')+0*i, nil, nil)
		refs = append(refs, r)
	}
	h, _ := sam.NewHeader(nil, refs)
	h.Version = "1.6"
	h.SortOrder = orderOf(order)
	var buf bytes.Buffer
	w, err := bam.NewWriterLevel(&buf, h, 1, 1)
	if err != nil {
		panic(err)
	}
	var exp []expRec
	for _, ri := range in.Recs {
		a := mAlphabet[ri]
		rec := &sam.Record{Name: mName(a.rank, id), Pos: a.pos, MatePos: a.mpos, MapQ: byte(a.mapq), Flags: sam.Paired}
		e := expRec{name: rec.Name, input: id, refName: "*", mateRef: "*", pos: a.pos, mapq: a.mapq}
		if a.ref >= 0 {
			rec.Ref = refs[a.ref]
			rec.Cigar = []sam.CigarOp{sam.NewCigarOp(sam.CigarMatch, 4)}
			rec.Seq = sam.NewSeq([]byte("ACGT"))
			e.refName = in.Refs[a.ref]
		} else {
			rec.Flags |= sam.Unmapped
		}
		if a.mate >= 0 {
			rec.MateRef = refs[a.mate]
			e.mateRef = in.Refs[a.mate]
		}
		if err := w.Write(rec); err != nil {
			panic(err)
		}
		exp = append(exp, e)
	}
	w.Close()
	b := append([]byte(nil), buf.Bytes()...)
	bamCache.Store(key, val{b, exp})
	return b, exp
}

func customLess(a, b *sam.Record) bool { return a.MapQ < b.MapQ }

// mergedOrder is the reference order of the merged header: first appearance over the inputs.
func mergedOrder(ins []mInput) map[string]int {
	idx := map[string]int{}
	for _, in := range ins {
		for _, n := range in.Refs {
			if _, ok := idx[n]; !ok {
				idx[n] = len(idx)
			}
		}
	}
	return idx
}

// sortInputs puts every input's records into the common declared order (the precondition of
// the property): for coordinate, the merged header's reference order, then position.
func sortInputs(cas *c18case) {
	if cas.Order != "coordinate" {
		return
	}
	idx := mergedOrder(cas.Inputs)
	for k := range cas.Inputs {
		in := &cas.Inputs[k]
		recs := append([]int(nil), in.Recs...)
		key := func(ri int) [2]int {
			a := mAlphabet[ri]
			if a.ref < 0 {
				return [2]int{1 << 30, 0}
			}
			return [2]int{idx[in.Refs[a.ref]], a.pos}
		}
		sort.SliceStable(recs, func(i, j int) bool {
			a, b := key(recs[i]), key(recs[j])
			return a[0] < b[0] || a[0] == b[0] && a[1] < b[1]
		})
		in.Recs = recs
	}
}

func c18one(c *Ctx, cas c18case) bool {
	sortInputs(&cas)
	cls := cas.Order
	nonEmpty := 0
	for _, in := range cas.Inputs {
		if len(in.Recs) > 0 {
			nonEmpty++
		}
	}
	if nonEmpty < len(cas.Inputs) {
		cls += ":with-empty-input"
	}
	var exp []expRec
	var srcs []*bam.Reader
	var devs []*faultio.ReadSeeker
	ok := guardRun(c, "merge:"+cls, cas, 120*time.Second, func() {
		for i, in := range cas.Inputs {
			b, e := inputBAM(in, cas.Order, i)
			exp = append(exp, e...)
			dev := &faultio.ReadSeeker{Data: b}
			if cas.FailAt > 0 && cas.FailIn == i {
				dev.ReadFault = faultio.Fault{At: cas.FailAt}
				dev.MaxRead = 40
			}
			devs = append(devs, dev)
			r, err := bam.NewReader(dev, 1)
			if err != nil {
				if cas.FailAt > 0 && dev.Failed > 0 {
					return // the fault hit while opening the input: not the Merger's business
				}
				c.Violate("merge:input-open-error", fmt.Sprintf("opening input %d: %v", i, err), cas)
				return
			}
			srcs = append(srcs, r)
		}
		var less func(a, b *sam.Record) bool
		if cas.Order == "unknown-custom" {
			less = customLess
		}
		m, err := bam.NewMerger(less, srcs...)
		faulty := cas.FailAt > 0
		if err != nil {
			if faulty && devs[cas.FailIn].Failed > 0 {
				return // reported
			}
			c.Violate("merge:NewMerger-error:"+cls, fmt.Sprintf("NewMerger over %+v (%s): %v", cas.Inputs, cas.Order, err), cas)
			return
		}
		mh := m.Header()
		inHeader := func(r *sam.Reference) bool {
			for _, x := range mh.Refs() {
				if x == r {
					return true
				}
			}
			return false
		}
		type gotRec struct {
			name, ref, mate string
			pos, mapq       int
		}
		var got []gotRec
		var readErr error
		for n := 0; n < len(exp)+4; n++ {
			rec, err := m.Read()
			if rec != nil {
				if rec.Ref != nil && !inHeader(rec.Ref) {
					c.Violate("merge:ref-not-in-merged-header:"+cls, fmt.Sprintf("record %s carries a reference (%s) that is not an element of Merger.Header().Refs()\ninputs %+v order %s", rec.Name, rec.Ref.Name(), cas.Inputs, cas.Order), cas)
					return
				}
				if rec.MateRef != nil && !inHeader(rec.MateRef) {
					c.Violate("merge:mate-ref-not-in-merged-header:"+cls, fmt.Sprintf("record %s carries a mate reference (%s) that is not an element of Merger.Header().Refs()\ninputs %+v order %s", rec.Name, rec.MateRef.Name(), cas.Inputs, cas.Order), cas)
					return
				}
				got = append(got, gotRec{rec.Name, rec.Ref.Name(), rec.MateRef.Name(), rec.Pos, int(rec.MapQ)})
			}
			if err == io.EOF {
				break
			}
			if err != nil {
				readErr = err
				break
			}
			if rec == nil {
				c.Violate("merge:nil-record-nil-error:"+cls, "Read returned (nil, nil)", cas)
				return
			}
		}
		if faulty {
			if devs[cas.FailIn].Failed > 0 && readErr == nil {
				c.Violate("merge:read-error-dropped:"+cls, fmt.Sprintf("input %d failed at its underlying Read %d but the merge ended with io.EOF after %d of %d records\ninputs %+v order %s", cas.FailIn, cas.FailAt, len(got), len(exp), cas.Inputs, cas.Order), cas)
			}
			return
		}
		if readErr != nil {
			c.Violate("merge:Read-error:"+cls, fmt.Sprintf("Read failed without a fault: %v\ninputs %+v order %s", readErr, cas.Inputs, cas.Order), cas)
			return
		}
		ctx := fmt.Sprintf("inputs %+v order %s; merged header %v; output %v", cas.Inputs, cas.Order, refNames(mh), got)
		// multiset
		want := map[string]expRec{}
		for _, e := range exp {
			want[e.name] = e
		}
		seen := map[string]bool{}
		for _, g := range got {
			e, ok := want[g.name]
			if !ok || seen[g.name] {
				c.Violate("merge:record-duplicated-or-invented:"+cls, fmt.Sprintf("record %s returned twice or never written\n%s", g.name, ctx), cas)
				return
			}
			seen[g.name] = true
			if g.ref != e.refName {
				c.Violate("merge:ref-name-changed:"+cls, fmt.Sprintf("record %s was on reference %s in its source and is on %s in the merge\n%s", g.name, e.refName, g.ref, ctx), cas)
				return
			}
			if g.mate != e.mateRef {
				c.Violate("merge:mate-ref-name-changed:"+cls, fmt.Sprintf("record %s had mate reference %s in its source and has %s in the merge\n%s", g.name, e.mateRef, g.mate, ctx), cas)
				return
			}
		}
		if len(got) != len(exp) {
			c.Violate("merge:records-lost:"+cls, fmt.Sprintf("%d records returned, %d written\n%s", len(got), len(exp), ctx), cas)
			return
		}
		// per-input order
		last := map[int]int{}
		pos := map[string]int{}
		for i, e := range exp {
			pos[e.name] = i
		}
		for _, g := range got {
			e := want[g.name]
			if p, ok := last[e.input]; ok && pos[g.name] < p {
				c.Violate("merge:input-order-not-preserved:"+cls, fmt.Sprintf("records of input %d come out in a different relative order\n%s", e.input, ctx), cas)
				return
			}
			last[e.input] = pos[g.name]
		}
		// sortedness
		refIdx := map[string]int{}
		for i, r := range mh.Refs() {
			refIdx[r.Name()] = i
		}
		key := func(g gotRec) [2]int {
			switch cas.Order {
			case "coordinate":
				if g.ref == "*" {
					return [2]int{1 << 30, 0}
				}
				return [2]int{refIdx[g.ref], g.pos}
			case "unknown-custom":
				return [2]int{g.mapq, 0}
			}
			return [2]int{0, 0}
		}
		switch cas.Order {
		case "queryname":
			for i := 1; i < len(got); i++ {
				if got[i].name < got[i-1].name {
					c.Violate("merge:not-sorted:"+cls, fmt.Sprintf("output is not sorted by name\n%s", ctx), cas)
					return
				}
			}
		case "coordinate", "unknown-custom":
			for i := 1; i < len(got); i++ {
				a, b := key(got[i-1]), key(got[i])
				if b[0] < a[0] || b[0] == a[0] && b[1] < a[1] {
					c.Violate("merge:not-sorted:"+cls, fmt.Sprintf("output is not sorted in the declared order (coordinate = merged header's reference order, then position, unplaced last)\n%s", ctx), cas)
					return
				}
			}
		default: // concatenation
			for i := 1; i < len(got); i++ {
				if want[got[i].name].input < want[got[i-1].name].input {
					c.Violate("merge:not-concatenated:"+cls, fmt.Sprintf("unsorted inputs must be concatenated in input order\n%s", ctx), cas)
					return
				}
			}
		}
	})
	return ok
}

func refNames(h *sam.Header) []string {
	var n []string
	for _, r := range h.Refs() {
		n = append(n, r.Name())
	}
	return n
}

// sortedSubsets returns the subsets of the alphabet of size <= max, each sorted in the order.
func sortedSubsets(order string, refs []string, max int) [][]int {
	var out [][]int
	n := len(mAlphabet)
	for mask := 0; mask < 1<<uint(n); mask++ {
		var s []int
		for i := 0; i < n; i++ {
			if mask&(1<<uint(i)) != 0 {
				s = append(s, i)
			}
		}
		if len(s) > max {
			continue
		}
		switch order {
		case "coordinate":
			sort.SliceStable(s, func(i, j int) bool {
				a, b := mAlphabet[s[i]], mAlphabet[s[j]]
				ka, kb := a.ref, b.ref
				if ka < 0 {
					ka = 99
				}
				if kb < 0 {
					kb = 99
				}
				return ka < kb || ka == kb && a.pos < b.pos
			})
		case "unknown-custom":
			sort.SliceStable(s, func(i, j int) bool { return mAlphabet[s[i]].mapq < mAlphabet[s[j]].mapq })
		}
		out = append(out, s)
	}
	return out
}

// c18content: merges in which the full content of every record is compared (the main search
// compares identity, placement and order): two consecutive records larger than 4 KiB in one
// input (the Merger holds one record while it reads the next), and inputs whose common reference
// carries optional tags (UR, M5) in both headers. Runs in-process: no recursion is involved.
func c18content(c *Ctx) {
	mkRef := func(name string, l int, tagged bool) *sam.Reference {
		var md5 []byte
		var u *url.URL
		if tagged {
			md5 = bytes.Repeat([]byte{0x42}, 16)
			u, _ = url.Parse("http://example.org/" + name + ".fa")
		}
		r, err := sam.NewReference(name, "", "", l, md5, u)
		if err != nil {
			panic(err)
		}
		return r
	}
	for _, tagged := range []bool{false, true} {
		for _, order := range []string{"coordinate", "queryname", "unknown-custom", "unsorted"} {
			cas := map[string]interface{}{"kind": "content", "order": order, "tagged_references": tagged}
			guard(c, "merge:content:"+order, cas, func() {
				var srcs []*bam.Reader
				var want []string
				for in := 0; in < 2; in++ {
					refs := []*sam.Reference{mkRef("a", 100000, tagged), mkRef("b", 100000, tagged)}
					h, _ := sam.NewHeader(nil, refs)
					switch order {
					case "coordinate":
						h.SortOrder = sam.Coordinate
					case "queryname":
						h.SortOrder = sam.QueryName
					case "unsorted":
						h.SortOrder = sam.Unsorted
					}
					var buf bytes.Buffer
					w, err := bam.NewWriter(&buf, h, 1)
					if err != nil {
						c.Violate("merge:content:writer", err.Error(), cas)
						return
					}
					// input 0: two long records then a short one; input 1: one short record between them
					type spec struct {
						name string
						pos  int
						l    int
						mapq byte
					}
					specs := []spec{{"n1", 10, 5000, 10}, {"n3", 30, 4500, 30}, {"n5", 50, 4, 50}}
					if in == 1 {
						specs = []spec{{"n2", 20, 4, 20}, {"n4", 40, 4200, 40}}
					}
					for _, sp := range specs {
						seq := make([]byte, sp.l)
						q := make([]byte, sp.l)
						for i := range seq {
							seq[i] = "ACGT"[(i+sp.pos)%4]
							q[i] = byte((i + sp.pos) % 40)
						}
						aux, _ := sam.NewAux(sam.NewTag("XN"), sp.name)
						rec, err := sam.NewRecord(sp.name, refs[0], refs[1], sp.pos, sp.pos+1, 0, sp.mapq, []sam.CigarOp{sam.NewCigarOp(sam.CigarMatch, sp.l)}, seq, q, []sam.Aux{aux})
						if err != nil {
							c.Violate("merge:content:build", err.Error(), cas)
							return
						}
						if err := w.Write(rec); err != nil {
							c.Violate("merge:content:write", err.Error(), cas)
							return
						}
						t, _ := rec.MarshalText()
						want = append(want, string(t))
					}
					w.Close()
					r, err := bam.NewReader(bytes.NewReader(buf.Bytes()), 1)
					if err != nil {
						c.Violate("merge:content:reader", err.Error(), cas)
						return
					}
					defer r.Close()
					srcs = append(srcs, r)
				}
				var less func(a, b *sam.Record) bool
				if order == "unknown-custom" {
					less = func(a, b *sam.Record) bool { return a.MapQ < b.MapQ }
				}
				m, err := bam.NewMerger(less, srcs...)
				if err != nil {
					c.Violate("merge:content:NewMerger", err.Error(), cas)
					return
				}
				var got []*sam.Record
				for {
					rec, err := m.Read()
					if err == io.EOF {
						break
					}
					if err != nil {
						c.Violate("merge:content:Read-error", err.Error(), cas)
						return
					}
					got = append(got, rec)
				}
				if len(got) != len(want) {
					c.Violate("merge:content:count", fmt.Sprintf("%d records out, %d in", len(got), len(want)), cas)
					return
				}
				hrefs := m.Header().Refs()
				seen := map[string]bool{}
				for _, rec := range got {
					t, _ := rec.MarshalText()
					seen[string(t)] = true
					for _, rf := range []*sam.Reference{rec.Ref, rec.MateRef} {
						if rf != nil && (rf.ID() < 0 || rf.ID() >= len(hrefs) || hrefs[rf.ID()] != rf) {
							c.Violate("merge:content:ref-not-in-merged-header", fmt.Sprintf("record %s carries reference %s (id %d) that is not an element of the merged header", rec.Name, rf.Name(), rf.ID()), cas)
							return
						}
					}
				}
				for _, w := range want {
					if !seen[w] {
						c.Violate("merge:content:record-changed", fmt.Sprintf("a record written as %q is not among the merged records (kept until the end of the merge)", clipStr(w)), cas)
						return
					}
				}
			})
			c.Eval(1)
			c.NontrivialN(1)
		}
	}
}

func c18(c *Ctx) {
	c.Rule = "inputs: k in {1,2} (thorough also 3) BAM inputs written by bam.Writer, each any subset of <=3 (k=3: <=2) records of a 6-record alphabet (two positions on each of two references, mates on the other reference, one unplaced, one unplaced whose mate is placed) sorted in the declared order; header pairs: equal reference lists, disjoint, overlapping, same set in another order, and lists whose header order differs from name order; orders: unknown with nil less, unknown with a custom less (MAPQ), unsorted, queryname, coordinate; empty inputs included. Fault dimension (k=2): every index j of the underlying Read of one input fails. Oracle = k-way merge model: output multiset equals the union; sorted in the declared order (coordinate = merged header's reference order, then position, unplaced last; unsorted/nil less = concatenation); relative order within an input preserved; io.EOF only after all inputs; an injected read error is returned by some Read; every Ref and MateRef is an element of Merger.Header().Refs() with the name it had in its source. Content merges: two inputs with consecutive records larger than 4 KiB, with and without UR/M5 tags on the common references, four orders, every record kept until the end and compared in full. Non-trivial: merges with at least two non-empty inputs or a fault."
	if c.Replay != nil {
		var cas c18case
		if err := json.Unmarshal(c.Replay, &cas); err != nil {
			c.Infra = err.Error()
			return
		}
		c18one(c, cas)
		return
	}
	orders := []string{"unknown-nil", "unknown-custom", "unsorted", "queryname", "coordinate"}
	pairs := [][2][]string{
		{{"a", "b"}, {"a", "b"}}, // equal
		{{"a", "b"}, {"c", "d"}}, // disjoint
		{{"a", "b"}, {"b", "c"}}, // overlapping
		{{"a", "b"}, {"b", "a"}}, // same set, other order
		{{"b", "a"}, {"b", "a"}}, // header order differs from name order
	}
	var cases []c18case
	for _, o := range orders {
		for _, s := range sortedSubsets(o, nil, 3) {
			cases = append(cases, c18case{Order: o, Inputs: []mInput{{Refs: []string{"a", "b"}, Recs: s}}})
			cases = append(cases, c18case{Order: o, Inputs: []mInput{{Refs: []string{"b", "a"}, Recs: s}}})
		}
		for _, p := range pairs {
			for _, s0 := range sortedSubsets(o, nil, 3) {
				for _, s1 := range sortedSubsets(o, nil, 3) {
					cases = append(cases, c18case{Order: o, Inputs: []mInput{{Refs: p[0], Recs: s0}, {Refs: p[1], Recs: s1}}})
				}
			}
		}
		if c.Thorough {
			for _, p := range pairs[:4] {
				third := []string{"c", "a"}
				for _, s0 := range sortedSubsets(o, nil, 2) {
					for _, s1 := range sortedSubsets(o, nil, 2) {
						for _, s2 := range sortedSubsets(o, nil, 2) {
							cases = append(cases, c18case{Order: o, Inputs: []mInput{{Refs: p[0], Recs: s0}, {Refs: p[1], Recs: s1}, {Refs: third, Recs: s2}}})
						}
					}
				}
			}
		} else {
			// three inputs whose reference lists all differ, one record each
			for _, a := range []int{0, 2} {
				for _, b := range []int{1, 3} {
					cases = append(cases, c18case{Order: o, Inputs: []mInput{{Refs: []string{"a", "b"}, Recs: []int{a}}, {Refs: []string{"b", "c"}, Recs: []int{b}}, {Refs: []string{"c", "a"}, Recs: []int{a}}}})
				}
			}
		}
		// faults
		for _, s0 := range [][]int{{0}, {0, 3}} {
			for _, s1 := range [][]int{{1}, {1, 2}, {}} {
				for j := 1; j <= 14; j++ {
					for fin := 0; fin < 2; fin++ {
						a, b := s0, s1
						if o == "coordinate" || o == "unknown-custom" {
							a, b = sortFor(o, a), sortFor(o, b)
						}
						cases = append(cases, c18case{Order: o, Inputs: []mInput{{Refs: []string{"a", "b"}, Recs: a}, {Refs: []string{"a", "b"}, Recs: b}}, FailAt: j, FailIn: fin})
					}
				}
			}
		}
	}
	c18content(c)
	var nt int64
	ics := make([]interface{}, len(cases))
	for i := range cases {
		ics[i] = cases[i]
	}
	// a Merger that recurses without bound dies with a fatal stack overflow: isolated workers
	runIsolated(c, "c18", ics, func(i int) string { return "merge:" + cases[i].Order }, 4096)
	parallel(len(cases), func(i int) {
		n := 0
		for _, in := range cases[i].Inputs {
			if len(in.Recs) > 0 {
				n++
			}
		}
		if n >= 2 || cases[i].FailAt > 0 {
			atomic.AddInt64(&nt, 1)
		}
	})
	c.Eval(int64(len(cases)))
	c.NontrivialN(nt)
	c.AddExtra("merges", int64(len(cases)))
	c.Sample(cases[len(cases)/2])
	c.Sample(cases[len(cases)-1])
	_ = strings.Join
}

func sortFor(order string, s []int) []int {
	out := append([]int(nil), s...)
	switch order {
	case "coordinate":
		sort.SliceStable(out, func(i, j int) bool {
			a, b := mAlphabet[out[i]], mAlphabet[out[j]]
			ka, kb := a.ref, b.ref
			if ka < 0 {
				ka = 99
			}
			if kb < 0 {
				kb = 99
			}
			return ka < kb || ka == kb && a.pos < b.pos
		})
	case "unknown-custom":
		sort.SliceStable(out, func(i, j int) bool { return mAlphabet[out[i]].mapq < mAlphabet[out[j]].mapq })
	}
	return out
}
