package main

import (
	"bytes"
	"encoding/binary"
	"encoding/json"
	"hash/crc32"
	"io"
	"strings"
	"time"

	"github.com/biogo/hts/bam"
	"github.com/biogo/hts/bgzf"
	"github.com/biogo/hts/cram"
	"github.com/biogo/hts/cram/encoding/itf8"
	"github.com/biogo/hts/cram/encoding/ltf8"
	"github.com/biogo/hts/csi"
	"github.com/biogo/hts/fai"
	"github.com/biogo/hts/sam"
	"github.com/biogo/hts/tabix"

	"verif/refimpl"
)

// C11: decoders are total. Every single-site mutation of valid encodings, and every short
// string over each text format's punctuation alphabet, is given to the decoder; whatever it
// returns without error is passed on to the library's own consumers. Cases run in isolated
// worker processes under a memory limit.

func init() {
	register("C11", "total", c11)
	isoHandlers["c11"] = func(c *Ctx, raw json.RawMessage) {
		var cas c11case
		if err := json.Unmarshal(raw, &cas); err != nil {
			panic(err)
		}
		c11one(c, cas)
	}
}

type c11case struct {
	Dec  string `json:"dec"`
	Seed int    `json:"seed,omitempty"`
	Op   string `json:"op"` // trunc, byte, u16, u32, del, dup, text, cram
	At   int    `json:"at,omitempty"`
	Val  int64  `json:"val,omitempty"`
	Text string `json:"text,omitempty"`
	P    []int  `json:"p,omitempty"` // cram builder parameters
}

// ---------------------------------------------------------------------------------------------
// seeds

type seedSet struct {
	dec   string
	seeds [][]byte
}

func bamSeedStream() []byte {
	text := "@HD\tVN:1.6\tSO:coordinate\n@SQ\tSN:chr1\tLN:100000\n@SQ\tSN:chr2\tLN:5000\n@RG\tID:g1\tSM:s\n@PG\tID:p1\tPN:x\n@CO\tc\n"
	b := refimpl.BAMHeader(text, []refimpl.RefInfo{{Name: "chr1", Len: 100000}, {Name: "chr2", Len: 5000}})
	recs := []refimpl.Rec{
		{Name: "r1", RefID: 0, Pos: 10, MapQ: 30, Flags: 0x1, MateRefID: 1, MatePos: 20, TLen: 5, Cigar: []uint32{cig('S', 1), cig('M', 3)}, Seq: "ACGT", Qual: []byte{1, 2, 3, 4},
			Aux: []refimpl.AuxField{{Tag: "NM", Type: 'i', Int: 70000}, {Tag: "XZ", Type: 'Z', Str: "ab"}, {Tag: "XB", Type: 'B', Sub: 's', Ints: []int64{1, -2}}}},
		{Name: "r2", RefID: 1, Pos: 16384 * 3, MapQ: 0, Flags: 0x4, MateRefID: -1, MatePos: -1, Seq: "AC", Aux: []refimpl.AuxField{{Tag: "XH", Type: 'H', Str: "1ae3"}, {Tag: "XA", Type: 'A', Int: 'q'}, {Tag: "XF", Type: 'f', Float: 1.5}}},
		{Name: "r3", RefID: -1, Pos: -1, MateRefID: -1, MatePos: -1, Flags: 0x4},
	}
	for i := range recs {
		b = append(b, refimpl.BAMRecord(&recs[i])...)
	}
	return b
}

func bamHeaderLen(stream []byte) int { return bamRecordEnds(stream)[0] }

const samSeedHeader = "@HD\tVN:1.6\tSO:coordinate\tGO:none\n@SQ\tSN:chr1\tLN:1000\tM5:0123456789abcdef0123456789abcdef\tUR:file:/x\n@SQ\tSN:chr2\tLN:50\n@RG\tID:g1\tDT:2014-08-13T16:02:01Z\tPI:300\tSM:s\n@PG\tID:p1\tPN:x\tPP:p0\n@CO\tcomment\n"

var samSeedLines = []string{
	"r1\t99\tchr1\t11\t30\t1S3M\t=\t21\t5\tACGT\t#$%&\tNM:i:7\tXZ:Z:ab\tXB:B:s,1,-2\tXH:H:1AE3\tXA:A:q\tXF:f:1.5",
	"r2\t0x4\t*\t0\t0\t*\t*\t0\t0\t*\t*",
}

func indexSeeds() (bai, tbx, csiB []byte) {
	recs := []irec{{Ref: 0, Beg: 10, End: 20}, {Ref: 0, Beg: 16384, End: 16390 + 16384}, {Ref: 1, Beg: 5, End: 6, Unmapped: true}, {Ref: -1}}
	for _, kind := range []string{"bai", "tabix", "csi"} {
		x := newIdx(c04case{Kind: kind, MinShift: 14, Depth: 5})
		for k, r := range recs {
			if err := x.add(r, chunkOf(k)); err != nil {
				panic(err)
			}
		}
		b, err := x.write()
		if err != nil {
			panic(err)
		}
		switch kind {
		case "bai":
			bai = b
		case "tabix":
			tbx = b
		default:
			csiB = b
		}
	}
	return
}

// cramBuild assembles a CRAM file from parameters so that checksums stay valid:
// p = [method, type, compressedSizeDelta, rawSizeDelta, headerEndField, blockLenDelta, nLandmarks, crcFix]
func cramBuild(p []int) []byte {
	get := func(i, def int) int {
		if i < len(p) {
			return p[i]
		}
		return def
	}
	method, typ := get(0, 0), get(1, 0)
	text := "@HD\tVN:1.6\n@SQ\tSN:chr1\tLN:100\n"
	content := make([]byte, 4)
	endField := get(4, len(text))
	binary.LittleEndian.PutUint32(content, uint32(endField))
	content = append(content, text...)
	itf := func(v int32) []byte { b := make([]byte, 5); return b[:itf8.Encode(b, v)] }
	ltf := func(v int64) []byte { b := make([]byte, 9); return b[:ltf8.Encode(b, v)] }
	// block
	var blk []byte
	blk = append(blk, byte(method), byte(typ))
	blk = append(blk, itf(0)...)
	blk = append(blk, itf(int32(len(content)+get(2, 0)))...)
	blk = append(blk, itf(int32(len(content)+get(3, 0)))...)
	blk = append(blk, content...)
	var c4 [4]byte
	sum := crc32.ChecksumIEEE(blk)
	if get(7, 1) == 0 {
		sum ^= 1
	}
	binary.LittleEndian.PutUint32(c4[:], sum)
	blk = append(blk, c4[:]...)
	// container header
	var ch []byte
	var l4 [4]byte
	binary.LittleEndian.PutUint32(l4[:], uint32(len(blk)+get(5, 0)))
	ch = append(ch, l4[:]...)
	ch = append(ch, itf(0)...) // refID
	ch = append(ch, itf(0)...) // start
	ch = append(ch, itf(0)...) // span
	ch = append(ch, itf(0)...) // nRec
	ch = append(ch, ltf(0)...) // recCount
	ch = append(ch, ltf(0)...) // bases
	ch = append(ch, itf(1)...) // blocks
	nl := get(6, 1)
	ch = append(ch, itf(int32(nl))...)
	for i := 0; i < nl && i < 3; i++ {
		ch = append(ch, itf(0)...)
	}
	binary.LittleEndian.PutUint32(c4[:], crc32.ChecksumIEEE(ch))
	ch = append(ch, c4[:]...)
	out := []byte("CRAM\x03\x00")
	out = append(out, make([]byte, 20)...)
	out = append(out, ch...)
	out = append(out, blk...)
	return out
}

var c11seedsOnce struct {
	m map[string][][]byte
}

func c11seeds() map[string][][]byte {
	if c11seedsOnce.m != nil {
		return c11seedsOnce.m
	}
	m := map[string][][]byte{}
	stream := bamSeedStream()
	m["bam"] = [][]byte{stream}
	m["bamhdr"] = [][]byte{stream[:bamHeaderLen(stream)]}
	m["bgzf"] = [][]byte{libWriter([]sop{{Op: "W", N: 5}, {Op: "F"}, {Op: "W", N: 4}}, false)}
	m["samhdr"] = [][]byte{[]byte(samSeedHeader)}
	m["samrec"] = [][]byte{[]byte(samSeedLines[0]), []byte(samSeedLines[1])}
	m["samreader"] = [][]byte{[]byte(samSeedHeader + samSeedLines[0] + "\n" + samSeedLines[1] + "\n"), []byte(samSeedLines[0] + "\n" + samSeedLines[1])}
	bai, tbx, csiB := indexSeeds()
	m["bai"], m["tabix"], m["csi"] = [][]byte{bai}, [][]byte{tbx}, [][]byte{csiB}
	m["fai"] = [][]byte{[]byte("s0\t10\t4\t4\t5\ns1\t3\t21\t3\t4\n")}
	m["fasta"] = [][]byte{[]byte(">s0 d\nACGT\nACGT\nAC\n>s1\nACG\n")}
	m["cramfile"] = [][]byte{cramBuild(nil)}
	c11seedsOnce.m = m
	return m
}

// mutate applies the case's operator to the seed.
func mutate(seed []byte, cas c11case) []byte {
	at := cas.At
	switch cas.Op {
	case "trunc":
		return append([]byte(nil), seed[:at]...)
	case "byte":
		b := append([]byte(nil), seed...)
		b[at] = byte(cas.Val)
		return b
	case "u16":
		b := append([]byte(nil), seed...)
		binary.LittleEndian.PutUint16(b[at:], uint16(cas.Val))
		return b
	case "u32":
		b := append([]byte(nil), seed...)
		binary.LittleEndian.PutUint32(b[at:], uint32(cas.Val))
		return b
	case "del":
		return append(append([]byte(nil), seed[:at]...), seed[at+1:]...)
	case "dup":
		return append(append(append([]byte(nil), seed[:at+1]...), seed[at]), seed[at+1:]...)
	}
	return seed
}

func mutationCases(dec string, si int, seed []byte, thorough bool) []c11case {
	var out []c11case
	for at := 0; at < len(seed); at++ {
		out = append(out, c11case{Dec: dec, Seed: si, Op: "trunc", At: at})
		b := seed[at]
		seen := map[byte]bool{b: true}
		for _, v := range []byte{0, 1, 0x7f, 0x80, 0xff, b + 1, b - 1} {
			if !seen[v] {
				seen[v] = true
				out = append(out, c11case{Dec: dec, Seed: si, Op: "byte", At: at, Val: int64(v)})
			}
		}
		out = append(out, c11case{Dec: dec, Seed: si, Op: "del", At: at}, c11case{Dec: dec, Seed: si, Op: "dup", At: at})
		if b >= 'A' && b <= 'Z' || b >= 'a' && b <= 'z' || b == '*' || b == '=' {
			// a byte that may be a type or operation letter: every letter the formats give a meaning to
			for _, v := range []byte("AcCsSiIfZHBdMN*=") {
				if !seen[v] {
					seen[v] = true
					out = append(out, c11case{Dec: dec, Seed: si, Op: "byte", At: at, Val: int64(v)})
				}
			}
		}
		rest := int64(len(seed) - at)
		if at+2 <= len(seed) {
			for _, v := range []int64{0, 1, 2, 3, 0xffff, 0x7fff, 0x8000, rest - 1, rest + 1} {
				out = append(out, c11case{Dec: dec, Seed: si, Op: "u16", At: at, Val: v & 0xffff})
			}
		}
		if at+4 <= len(seed) {
			for _, v := range []int64{0, 1, 2, 3, 0xffffffff, 0x7fffffff, 0x80000000, rest - 1, rest + 1, 0x10000} {
				out = append(out, c11case{Dec: dec, Seed: si, Op: "u32", At: at, Val: v & 0xffffffff})
			}
		}
	}
	return out
}

func textCases(dec, alphabet string, maxLen int) []c11case {
	var out []c11case
	level := []string{""}
	for l := 1; l <= maxLen; l++ {
		var next []string
		for _, p := range level {
			for _, ch := range alphabet {
				next = append(next, p+string(ch))
			}
		}
		for _, s := range next {
			out = append(out, c11case{Dec: dec, Op: "text", Text: s})
		}
		level = next
	}
	return out
}

// ---------------------------------------------------------------------------------------------
// decoders and the consumers of what they return

func useRecord(rec *sam.Record, h *sam.Header) {
	_ = rec.String()
	rec.MarshalSAM(sam.FlagDecimal)
	rec.MarshalSAM(sam.FlagString)
	_ = rec.End()
	_ = rec.Bin()
	_ = rec.Len()
	_ = rec.Start()
	_ = rec.Strand()
	rec.Cigar.IsValid(rec.Seq.Length)
	rec.Cigar.Lengths()
	_ = rec.Cigar.String()
	for _, a := range rec.AuxFields {
		_ = a.Value()
		_ = a.String()
		_ = a.Tag()
		_ = a.Kind()
	}
	_ = sam.IsValidRecord(rec)
	if rec.Seq.Length <= 1<<20 {
		_ = rec.Seq.Expand()
	}
	if h != nil {
		h.Validate(rec)
	}
	var idx bam.Index
	idx.Add(rec, chunkOf(0))
	if len(rec.Name) > 0 && len(rec.Name) < 255 {
		// one long-lived writer per worker process: creating one per record costs milliseconds
		if sharedBAM == nil {
			if hh, err := sam.NewHeader(nil, nil); err == nil {
				sharedBAM, _ = bam.NewWriterLevel(io.Discard, hh, 0, 1)
			}
		}
		if sharedBAM != nil {
			sharedBAM.Write(rec)
		}
	}
}

var sharedBAM *bam.Writer

func useHeader(h *sam.Header) {
	h.MarshalText()
	h.MarshalBinary()
	c := h.Clone()
	c.MarshalText()
	for _, r := range h.Refs() {
		_ = r.String()
		_ = r.ID()
		_ = r.Len()
		_ = r.URI()
		_ = r.MD5()
	}
	for _, g := range h.RGs() {
		_ = g.String()
		_ = g.Time()
	}
	for _, p := range h.Progs() {
		_ = p.String()
	}
}

type genericIndex interface {
	NumRefs() int
}

func decode(c *Ctx, cas c11case, in []byte) {
	switch cas.Dec {
	case "bgzf":
		for _, rd := range []int{1, 2} {
			r, err := bgzf.NewReader(bytes.NewReader(in), rd)
			if err != nil {
				continue
			}
			io.Copy(io.Discard, io.LimitReader(r, 1<<20))
			r.Seek(bgzf.Offset{File: 0, Block: 1})
			r.Seek(bgzf.Offset{File: int64(len(in) / 2)})
			r.Read(make([]byte, 10))
			_ = r.LastChunk()
			_ = r.BlockLen()
			r.Close()
		}
		bgzf.HasEOF(bytes.NewReader(in))
	case "bam":
		file, _ := refimpl.EncodeFile([][]byte{in}, 1, true)
		for _, omit := range []int{bam.None, bam.AuxTags, bam.AllVariableLengthData} {
			r, err := bam.NewReader(bytes.NewReader(file), 1)
			if err != nil {
				continue
			}
			r.Omit(omit)
			useHeader(r.Header())
			for n := 0; n < 16; n++ {
				rec, err := r.Read()
				if err != nil {
					break
				}
				useRecord(rec, r.Header())
				_ = r.LastChunk()
			}
			r.Close()
		}
	case "bamhdr":
		h, _ := sam.NewHeader(nil, nil)
		if err := h.UnmarshalBinary(in); err == nil {
			useHeader(h)
		}
	case "samhdr":
		h, _ := sam.NewHeader(nil, nil)
		if err := h.UnmarshalText(in); err == nil {
			useHeader(h)
		}
		if h2, err := sam.NewHeader(in, nil); err == nil {
			useHeader(h2)
		}
	case "samrec":
		h, _ := sam.NewHeader([]byte(samSeedHeader), nil)
		var r1, r2 sam.Record
		if err := r1.UnmarshalSAM(h, in); err == nil {
			useRecord(&r1, h)
		}
		if err := r2.UnmarshalSAM(nil, in); err == nil {
			useRecord(&r2, nil)
		}
		if err := r2.UnmarshalText(in); err == nil {
			useRecord(&r2, nil)
		}
	case "samreader":
		r, err := sam.NewReader(bytes.NewReader(in))
		if err != nil {
			return
		}
		useHeader(r.Header())
		for n := 0; n < 16; n++ {
			rec, err := r.Read()
			if err != nil {
				break
			}
			useRecord(rec, r.Header())
		}
	case "aux":
		if a, err := sam.ParseAux(in); err == nil {
			_ = a.Value()
			_ = a.String()
			rec := &sam.Record{Name: "r", AuxFields: sam.AuxFields{a}}
			rec.MarshalSAM(0)
			useRecord(rec, nil)
		}
	case "cigar":
		if cg, err := sam.ParseCigar(in); err == nil {
			cg.IsValid(10)
			cg.Lengths()
			_ = cg.String()
			rec := &sam.Record{Name: "r", Cigar: cg, Pos: 5}
			_ = rec.End()
			_ = rec.Bin()
		}
	case "bai":
		if x, err := bam.ReadIndex(bytes.NewReader(in)); err == nil && x != nil {
			useIndex(baiIdx{x})
		}
	case "tabix":
		if x, err := tabix.ReadFrom(bytes.NewReader(in)); err == nil && x != nil {
			useIndex(tbxIdx{x})
			_ = x.Names()
			_ = x.IDs()
		}
	case "csi":
		if x, err := csi.ReadFrom(bytes.NewReader(in)); err == nil && x != nil {
			useIndex(csiIdx{x})
		}
	case "fai":
		if x, err := fai.ReadFrom(bytes.NewReader(in)); err == nil {
			useFai(x, []byte(">s0 d\nACGT\nACGT\nAC\n>s1\nACG\n"))
		}
	case "fasta":
		if x, err := fai.NewIndex(bytes.NewReader(in)); err == nil {
			useFai(x, in)
		}
	case "cramfile", "cram":
		r, err := cram.NewReader(bytes.NewReader(in))
		if err != nil {
			return
		}
		for n := 0; n < 8 && r.Next(); n++ {
			ct := r.Container()
			for k := 0; k < 8 && ct.Next(); k++ {
				if v, err := ct.Block().Value(); err == nil {
					if h, ok := v.(*sam.Header); ok {
						useHeader(h)
					}
				}
			}
			_ = ct.Err()
		}
		_ = r.Err()
		cram.HasEOF(bytes.NewReader(in))
	}
}

func useIndex(x idx) {
	n := x.numRefs()
	for id := 0; id < n && id < 8; id++ {
		x.refStats(id)
		x.chunks(id, 0, 1<<29-1)
		x.chunks(id, 16384, 16385)
		x.chunks(id, 100, 50)
	}
	x.chunks(n, 0, 10)
	x.unmapped()
	x.merge(nil)
	if b, err := x.write(); err == nil {
		x.read(b)
	}
}

func useFai(x fai.Index, data []byte) {
	var buf bytes.Buffer
	fai.WriteTo(&buf, x)
	f := fai.NewFile(bytes.NewReader(data), x)
	for name, rec := range x {
		if rec.Length >= 0 && rec.Length < 1<<16 {
			if s, err := f.Seq(name); err == nil {
				io.Copy(io.Discard, io.LimitReader(s, 1<<16))
			}
			if s, err := f.SeqRange(name, 0, rec.Length); err == nil {
				b := make([]byte, 3)
				for i := 0; i < 64; i++ {
					if _, err := s.Read(b); err != nil {
						break
					}
				}
			}
			if rec.Length > 0 {
				func() {
					defer func() { recover() }() // Position documents that it panics out of range
					_ = rec.Position(0)
				}()
			}
		}
	}
}

func c11one(c *Ctx, cas c11case) {
	var in []byte
	switch cas.Op {
	case "text":
		in = []byte(cas.Text)
	case "cram":
		in = cramBuild(cas.P)
		if cas.At > 0 && cas.At < len(in) {
			in = in[:cas.At]
		}
	default:
		seeds := c11seeds()[cas.Dec]
		in = mutate(seeds[cas.Seed], cas)
	}
	c.Eval(1)
	guardRun(c, cas.Dec, cas, 60*time.Second, func() { decode(c, cas, in) })
}

func c11(c *Ctx) {
	c.Rule = "decoders: bgzf.NewReader/Read/Seek/HasEOF, bam.NewReader/Read under the three Omit modes (mutations applied to the uncompressed BAM stream, re-wrapped in valid BGZF), Header.UnmarshalBinary, Header.UnmarshalText/NewHeader, Record.UnmarshalSAM/UnmarshalText, sam.Reader, ParseAux, ParseCigar, bam.ReadIndex, tabix.ReadFrom, csi.ReadFrom, fai.ReadFrom, fai.NewIndex, cram Reader/Container/Block.Value. Inputs: every single-site mutation of every seed (truncate at every length; each byte -> {0,1,0x7f,0x80,0xff,b+1,b-1}; every 16- and 32-bit little-endian field position -> {0,1,2,3,-1,max,min,len-1,len+1,65536}; delete / duplicate each byte; every byte that is a letter, '*' or '=' -> every type/operation letter of the formats), values of 18 length classes (0..65536, around 16, 32, 256 and 4096) x 4 fill characters in every tagged field of the header lines, in aux values of every type and in every column of a SAM line, every string of length <= 5 (thorough 7) over each text format's punctuation alphabet (aux 'X:Bc,1-Z', cigar '19MB*=', header '@HDSQ\\t:VN1'), digit runs of every length 1..24 in every numeric position of the text formats, and CRAM files assembled from parameter products with valid checksums. Every value returned without error goes to the library's own consumers (String/MarshalSAM/End/Bin/Len, Cigar methods, Aux.Value/String, Header.Marshal*/Clone, bam.Writer.Write, Index.Add, Chunks/ReferenceStats/WriteIndex, fai File reads). Oracle: returns within 60 s, no panic, no fatal error; inputs that exhaust the 768 MiB worker memory limit are counted, not judged. Non-trivial: every mutated input (all differ from the seed)."
	if c.Replay != nil {
		var cas c11case
		if err := json.Unmarshal(c.Replay, &cas); err != nil {
			c.Infra = err.Error()
			return
		}
		c11one(c, cas)
		return
	}
	var cases []c11case
	seeds := c11seeds()
	for _, dec := range []string{"bgzf", "bam", "bamhdr", "samhdr", "samrec", "samreader", "bai", "tabix", "csi", "fai", "fasta", "cramfile"} {
		for si, s := range seeds[dec] {
			cases = append(cases, mutationCases(dec, si, s, c.Thorough)...)
		}
	}
	tl := 5
	if c.Thorough {
		tl = 7
	}
	cases = append(cases, textCases("aux", "X:Bc,1-Z", tl)...)
	cases = append(cases, textCases("cigar", "19MB*=", tl)...)
	cases = append(cases, textCases("samhdr", "@HDSQ\t:VN1", tl-1)...)
	cases = append(cases, textCases("samrec", "r\t*0=", tl-1)...)
	// values of every length class in every tagged field of the text formats (fixed-size
	// destinations such as the 16-byte MD5, line buffers, 8/16-bit counts)
	for _, l := range []int{0, 1, 2, 15, 16, 17, 31, 32, 33, 34, 64, 255, 256, 257, 4095, 4096, 4097, 65536} {
		for _, ch := range []string{"0", "a", "/", " "} {
			v := strings.Repeat(ch, l)
			for _, tag := range []string{"M5", "AS", "SP", "UR", "AH", "XX", "LN", "SN"} {
				cases = append(cases, c11case{Dec: "samhdr", Op: "text", Text: "@SQ\tSN:a\tLN:10\t" + tag + ":" + v})
			}
			for _, tag := range []string{"DT", "PI", "FO", "KS", "PL", "PU", "LB", "SM", "CN", "DS", "PG", "XX", "ID"} {
				cases = append(cases, c11case{Dec: "samhdr", Op: "text", Text: "@RG\tID:a\t" + tag + ":" + v})
			}
			for _, tag := range []string{"PN", "CL", "PP", "VN", "XX", "ID"} {
				cases = append(cases, c11case{Dec: "samhdr", Op: "text", Text: "@PG\tID:p\t" + tag + ":" + v})
			}
			for _, tag := range []string{"VN", "SO", "GO", "XX"} {
				cases = append(cases, c11case{Dec: "samhdr", Op: "text", Text: "@HD\t" + tag + ":" + v})
			}
			cases = append(cases, c11case{Dec: "samhdr", Op: "text", Text: "@CO\t" + v})
			for _, typ := range []string{"Z", "H", "A", "i", "f", "B:c,", "B:f,", "B:H,"} {
				sep := ":"
				if strings.HasPrefix(typ, "B") {
					sep = ""
				}
				cases = append(cases, c11case{Dec: "aux", Op: "text", Text: "XY:" + typ + sep + v})
			}
			f := strings.Split(samSeedLines[0], "\t")
			for fi := range f {
				g := append([]string(nil), f...)
				g[fi] = v
				cases = append(cases, c11case{Dec: "samrec", Op: "text", Text: strings.Join(g, "\t")})
			}
		}
	}
	// digit runs of every length 1..24 in every numeric position of the text formats
	for k := 1; k <= 24; k++ {
		for _, d := range []string{"9", "1", "0"} {
			run := strings.Repeat(d, k)
			cases = append(cases, c11case{Dec: "cigar", Op: "text", Text: run + "M"}, c11case{Dec: "cigar", Op: "text", Text: "2M" + run + "S"},
				c11case{Dec: "aux", Op: "text", Text: "NM:i:" + run}, c11case{Dec: "aux", Op: "text", Text: "NM:i:-" + run}, c11case{Dec: "aux", Op: "text", Text: "XB:B:i," + run},
				c11case{Dec: "aux", Op: "text", Text: "XF:f:" + run})
			f := strings.Split(samSeedLines[0], "\t")
			for _, fi := range []int{1, 3, 4, 7, 8} {
				g := append([]string(nil), f...)
				g[fi] = run
				cases = append(cases, c11case{Dec: "samrec", Op: "text", Text: strings.Join(g, "\t")})
				g[fi] = "-" + run
				cases = append(cases, c11case{Dec: "samrec", Op: "text", Text: strings.Join(g, "\t")})
			}
			cases = append(cases, c11case{Dec: "samhdr", Op: "text", Text: "@SQ\tSN:a\tLN:" + run}, c11case{Dec: "samhdr", Op: "text", Text: "@RG\tID:a\tPI:" + run},
				c11case{Dec: "fai", Op: "text", Text: "s\t" + run + "\t" + run + "\t" + run + "\t" + run + "\n"})
		}
	}
	// CRAM parameter products
	for _, method := range []int{0, 1, 2, 3, 4, 5, 0x81, 0xff} {
		for _, typ := range []int{0, 1, 2, 3, 4, 5, 6} {
			for _, cs := range []int{0, -1, 1, -1000, 1 << 30} {
				for _, rs := range []int{0, 1} {
					for _, end := range []int{-1, 0, 3, 1 << 20} {
						p := []int{method, typ, cs, rs, end}
						if end == -1 {
							p = p[:4]
						}
						cases = append(cases, c11case{Dec: "cram", Op: "cram", P: p})
					}
				}
			}
		}
	}
	for _, bl := range []int{-1, 1, -100, 1 << 30} {
		for _, nl := range []int{0, 2, -1, 1 << 28} {
			cases = append(cases, c11case{Dec: "cram", Op: "cram", P: []int{0, 0, 0, 0, 30, bl, nl}})
		}
	}
	ics := make([]interface{}, len(cases))
	per := map[string]int64{}
	for i := range cases {
		ics[i] = cases[i]
		per[cases[i].Dec]++
	}
	runIsolated(c, "c11", ics, func(i int) string { return cases[i].Dec }, 768)
	c.NontrivialN(int64(len(cases)))
	for k, v := range per {
		c.AddExtra("inputs "+k, v)
	}
	c.Sample(cases[100])
	c.Sample(cases[len(cases)/2])
	c.Sample(cases[len(cases)-1])
	_ = strings.Join
}
