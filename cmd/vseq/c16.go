package main

import (
	"encoding/json"
	"fmt"
	"sort"
	"sync/atomic"

	"github.com/biogo/hts/bam"
	"github.com/biogo/hts/csi"
	"github.com/biogo/hts/sam"

	"verif/refimpl"
)

func init() { register("C16", "coord", c16) }

type c16case struct {
	Kind     string   `json:"kind"` // bai-bin, bai-bins, csi-bin, csi-bins, csi-overlap, bai-overlap, record
	Beg      int64    `json:"beg,omitempty"`
	End      int64    `json:"end,omitempty"`
	Beg2     int64    `json:"beg2,omitempty"`
	End2     int64    `json:"end2,omitempty"`
	MinShift int      `json:"min_shift,omitempty"`
	Depth    int      `json:"depth,omitempty"`
	Cigar    []uint32 `json:"cigar,omitempty"`
	Pos      int      `json:"pos,omitempty"`
	Flags    int      `json:"flags,omitempty"`
}

func sameSet(a []uint32, b []int) bool {
	if len(a) != len(b) {
		return false
	}
	x := make([]int, len(a))
	for i, v := range a {
		x[i] = int(v)
	}
	y := append([]int(nil), b...)
	sort.Ints(x)
	sort.Ints(y)
	for i := range x {
		if x[i] != y[i] {
			return false
		}
	}
	return true
}

func c16baiBin(c *Ctx, beg, end int) bool {
	if got, want := int(bam.VerifBinFor(beg, end)), refimpl.Reg2bin(beg, end); got != want {
		c.Violate(fmt.Sprintf("bai:BinFor:level%d", baiLevel(want)), fmt.Sprintf("BinFor(%d,%d)=%d, SAM spec reg2bin gives %d", beg, end, got, want), c16case{Kind: "bai-bin", Beg: int64(beg), End: int64(end)})
		return false
	}
	return true
}

func baiLevel(bin int) int {
	l := 0
	for first := 0; l < 5 && bin >= first+(1<<uint(3*l)); l++ {
		first += 1 << uint(3*l)
	}
	return l
}

func c16baiBins(c *Ctx, beg, end int) bool {
	if got, want := bam.VerifOverlappingBinsFor(beg, end), refimpl.Reg2bins(beg, end); !sameSet(got, want) {
		c.Violate("bai:OverlappingBinsFor", fmt.Sprintf("OverlappingBinsFor(%d,%d) has %d bins, SAM spec reg2bins %d; library %v...", beg, end, len(got), len(want), head(got)), c16case{Kind: "bai-bins", Beg: int64(beg), End: int64(end)})
		return false
	}
	return true
}

func head(a []uint32) []uint32 {
	if len(a) > 12 {
		return a[:12]
	}
	return a
}

func c16csiBin(c *Ctx, beg, end int64, ms, d int) bool {
	if got, want := int(csi.VerifReg2bin(beg, end, uint32(ms), uint32(d))), refimpl.CSIReg2bin(beg, end, ms, d); got != want {
		c.Violate("csi:reg2bin", fmt.Sprintf("csi reg2bin(%d,%d,minShift=%d,depth=%d)=%d, CSI spec gives %d", beg, end, ms, d, got, want), c16case{Kind: "csi-bin", Beg: beg, End: end, MinShift: ms, Depth: d})
		return false
	}
	return true
}

func c16csiBins(c *Ctx, beg, end int64, ms, d int) bool {
	if got, want := csi.VerifReg2bins(beg, end, uint32(ms), uint32(d)), refimpl.CSIReg2bins(beg, end, ms, d); !sameSet(got, want) {
		c.Violate("csi:reg2bins", fmt.Sprintf("csi reg2bins(%d,%d,minShift=%d,depth=%d)=%v, CSI spec gives %v", beg, end, ms, d, head(got), want), c16case{Kind: "csi-bins", Beg: beg, End: end, MinShift: ms, Depth: d})
		return false
	}
	return true
}

// spec semantics of a record's coordinates (SAM v1 §1.4, §5.3)
func specEnd(pos int, flags sam.Flags, cg []sam.CigarOp) int {
	if flags&sam.Unmapped != 0 || len(cg) == 0 {
		return pos + 1 // unmapped reads and reads without CIGAR are treated as length one
	}
	p, end := pos, pos
	for _, co := range cg {
		switch co.Type() {
		case sam.CigarMatch, sam.CigarDeletion, sam.CigarSkipped, sam.CigarEqual, sam.CigarMismatch:
			p += co.Len()
		case sam.CigarBack:
			p -= co.Len()
		}
		if p > end {
			end = p
		}
	}
	return end
}

func specLengths(cg []sam.CigarOp) (ref, read int) {
	for _, co := range cg {
		switch co.Type() {
		case sam.CigarMatch, sam.CigarEqual, sam.CigarMismatch:
			ref += co.Len()
			read += co.Len()
		case sam.CigarDeletion, sam.CigarSkipped:
			ref += co.Len()
		case sam.CigarInsertion, sam.CigarSoftClipped:
			read += co.Len()
		}
	}
	return
}

func specValid(cg []sam.CigarOp, l int) bool {
	n := len(cg)
	_, read := specLengths(cg)
	for i, co := range cg {
		switch co.Type() {
		case sam.CigarHardClipped:
			if i != 0 && i != n-1 {
				return false
			}
		case sam.CigarSoftClipped:
			// only H operations may lie between an S and the nearer end of the CIGAR
			left, right := true, true
			for _, x := range cg[:i] {
				left = left && x.Type() == sam.CigarHardClipped
			}
			for _, x := range cg[i+1:] {
				right = right && x.Type() == sam.CigarHardClipped
			}
			if !left && !right {
				return false
			}
		}
	}
	return read == l
}

func c16record(c *Ctx, cg []sam.CigarOp, pos int, flags sam.Flags) {
	raw := make([]uint32, len(cg))
	hasB := false
	for i, co := range cg {
		raw[i] = uint32(co)
		hasB = hasB || co.Type() == sam.CigarBack
	}
	cas := c16case{Kind: "record", Cigar: raw, Pos: pos, Flags: int(flags)}
	guard(c, "record", cas, func() {
		r := &sam.Record{Name: "r", Pos: pos, Flags: flags, Cigar: sam.Cigar(cg)}
		cs := sam.Cigar(cg).String()
		wantEnd := specEnd(pos, flags, cg)
		if got := r.End(); got != wantEnd {
			c.Violate("record:End", fmt.Sprintf("pos %d flags %v cigar %s: End()=%d, spec %d", pos, flags, cs, got, wantEnd), cas)
			return
		}
		if got := r.Len(); got != wantEnd-pos {
			c.Violate("record:Len", fmt.Sprintf("pos %d flags %v cigar %s: Len()=%d, spec %d", pos, flags, cs, got, wantEnd-pos), cas)
			return
		}
		wr, wq := specLengths(cg)
		if gr, gq := sam.Cigar(cg).Lengths(); gr != wr || gq != wq {
			c.Violate("cigar:Lengths", fmt.Sprintf("cigar %s: Lengths()=(%d,%d), spec (%d,%d)", cs, gr, gq, wr, wq), cas)
			return
		}
		if !hasB {
			for _, l := range []int{wq - 1, wq, wq + 1} {
				if l < 0 {
					continue
				}
				if got, want := sam.Cigar(cg).IsValid(l), specValid(cg, l); got != want {
					c.Violate("cigar:IsValid", fmt.Sprintf("cigar %s: IsValid(%d)=%v, spec %v", cs, l, got, want), cas)
					return
				}
			}
		}
		if pos >= -1 && wantEnd <= 1<<29 {
			want := refimpl.Reg2bin(pos, wantEnd)
			if got := r.Bin(); got != want {
				c.Violate(fmt.Sprintf("record:Bin:flags=%d", int(flags)), fmt.Sprintf("pos %d flags %v cigar %s: Bin()=%d, spec reg2bin(%d,%d)=%d", pos, flags, cs, got, pos, wantEnd, want), cas)
				return
			}
		}
	})
}

func c16(c *Ctx) {
	c.Rule = "BAI BinFor vs SAM reg2bin: all begin/end tile pairs tb<=te over (quick) the 512 coarsest 1 MiB-aligned tiles plus every pair within 64 tiles of a level boundary, (thorough) all 2^15 x 2^15 tile pairs, each with in-tile offsets (beg,end-1) in {0,1,T-1}^2. OverlappingBinsFor vs reg2bins as sets: every (tb, span<=8) for all tb, and all pairs over ~320 boundary tiles. CSI reg2bin/reg2bins vs the CSI spec on geometries (14,5),(14,6),(12,4),(1,2),(0,1),(3,3),(2,2),(14,7),(20,5) (the last two reach 2^35) at all level-boundary positions +-1; overlap consistency bin(A) in bins(B) checked directly over ALL overlapping interval pairs of every CSI geometry with minShift+3*depth<=8 and over a boundary interval alphabet for BAI. Records: all CIGARs of <=3 (thorough 4) ops over the 10 op types x lengths {1,2,2^28-1} x pos {0,5,2^29-1-len,-1} x flags {0,Unmapped,Unmapped|MateUnmapped}: End, Len, Lengths, IsValid(l-1,l,l+1), Bin vs SAM v1 semantics. Assigned bins: every single record and sorted pair (same reference, and on references 0/1) over the C04 interval alphabet added through bam.Index.Add / csi.Index.Add (geometries (14,5),(12,4),(1,2),(3,3),(14,6)), the index written and parsed independently: the bins present per reference must be exactly the specification's reg2bin of the records added. Non-trivial: intervals spanning more than one leaf tile / CIGARs with >=2 ops."
	if c.Replay != nil {
		var cas c16case
		if err := json.Unmarshal(c.Replay, &cas); err != nil {
			c.Infra = err.Error()
			return
		}
		if cas.Kind == "bai" || cas.Kind == "csi" {
			var ic c04case
			json.Unmarshal(c.Replay, &ic)
			c16assignedOne(c, ic)
			return
		}
		switch cas.Kind {
		case "bai-bin":
			c16baiBin(c, int(cas.Beg), int(cas.End))
		case "bai-bins":
			c16baiBins(c, int(cas.Beg), int(cas.End))
		case "csi-bin":
			c16csiBin(c, cas.Beg, cas.End, cas.MinShift, cas.Depth)
		case "csi-bins":
			c16csiBins(c, cas.Beg, cas.End, cas.MinShift, cas.Depth)
		case "csi-overlap":
			b := csi.VerifReg2bin(cas.Beg, cas.End, uint32(cas.MinShift), uint32(cas.Depth))
			in := false
			for _, x := range csi.VerifReg2bins(cas.Beg2, cas.End2, uint32(cas.MinShift), uint32(cas.Depth)) {
				in = in || x == b
			}
			if !in {
				c.Violate("csi:overlap-consistency", fmt.Sprintf("bin %d of [%d,%d) is not in the bin list of the overlapping [%d,%d)", b, cas.Beg, cas.End, cas.Beg2, cas.End2), cas)
			}
		case "bai-overlap":
			b := bam.VerifBinFor(int(cas.Beg), int(cas.End))
			in := false
			for _, x := range bam.VerifOverlappingBinsFor(int(cas.Beg2), int(cas.End2)) {
				in = in || x == b
			}
			if !in {
				c.Violate("bai:overlap-consistency", fmt.Sprintf("bin %d of [%d,%d) is not in the bin list of the overlapping [%d,%d)", b, cas.Beg, cas.End, cas.Beg2, cas.End2), cas)
			}
		case "record":
			cg := make([]sam.CigarOp, len(cas.Cigar))
			for i, x := range cas.Cigar {
				cg[i] = sam.CigarOp(x)
			}
			c16record(c, cg, cas.Pos, sam.Flags(cas.Flags))
		}
		return
	}
	const T = 1 << 14
	const NT = 1 << 15
	offs := []int{0, 1, T - 1}
	// ---- BAI BinFor
	var tiles []int
	if c.Thorough {
		for t := 0; t < NT; t++ {
			tiles = append(tiles, t)
		}
	} else {
		seen := map[int]bool{}
		add := func(t int) {
			if t >= 0 && t < NT && !seen[t] {
				seen[t] = true
				tiles = append(tiles, t)
			}
		}
		for t := 0; t < NT; t += 64 {
			add(t)
		}
		for _, sh := range []uint{3, 6, 9, 12} {
			for b := 0; b <= NT; b += 1 << sh {
				if sh >= 9 || b%(1<<9) == 0 || b < 1<<10 || b > NT-(1<<10) {
					for d := -2; d <= 2; d++ {
						add(b + d)
					}
				}
			}
		}
		sort.Ints(tiles)
	}
	var evals, nontriv int64
	parallel(len(tiles), func(i int) {
		tb := tiles[i]
		var n, nt int64
		for _, te := range tiles[i:] {
			for _, ob := range offs {
				for _, oe := range offs {
					beg, end := tb*T+ob, te*T+oe+1
					if end <= beg {
						continue
					}
					c16baiBin(c, beg, end)
					n++
					if te > tb {
						nt++
					}
				}
			}
		}
		atomic.AddInt64(&evals, n)
		atomic.AddInt64(&nontriv, nt)
	})
	c.AddExtra("bai_binfor_pairs", evals)
	c.AddExtra("bai_tiles", int64(len(tiles)))
	// ---- BAI OverlappingBinsFor
	var be, bnt int64
	parallel(NT, func(tb int) {
		var n int64
		for span := 0; span <= 8 && tb+span < NT; span++ {
			for _, ob := range offs {
				for _, oe := range offs {
					beg, end := tb*T+ob, (tb+span)*T+oe+1
					if end <= beg {
						continue
					}
					c16baiBins(c, beg, end)
					n++
				}
			}
		}
		atomic.AddInt64(&be, n)
		atomic.AddInt64(&bnt, n*8/9)
	})
	var btiles []int
	for t := 0; t < NT; t++ {
		m := t % 512
		if t < 64 || t >= NT-64 || m <= 1 || m == 511 {
			btiles = append(btiles, t)
		}
	}
	parallel(len(btiles), func(i int) {
		var n int64
		for _, te := range btiles[i:] {
			for _, ob := range []int{0, T - 1} {
				for _, oe := range []int{0, T - 1} {
					beg, end := btiles[i]*T+ob, te*T+oe+1
					if end <= beg {
						continue
					}
					c16baiBins(c, beg, end)
					n++
				}
			}
		}
		atomic.AddInt64(&be, n)
		atomic.AddInt64(&bnt, n)
	})
	c.AddExtra("bai_binlist_intervals", be)
	evals += be
	nontriv += bnt
	// ---- BAI overlap consistency on a boundary interval alphabet
	var ends []int
	for _, k := range []uint{14, 17, 20, 23, 26, 29} {
		for d := -1; d <= 1; d++ {
			if v := 1<<k + d; v >= 0 && v <= 1<<29 {
				ends = append(ends, v)
			}
		}
	}
	ends = append(ends, 0, 1, 2*T, 3*T+5)
	sort.Ints(ends)
	type iv struct{ b, e int }
	var ivs []iv
	for _, b := range ends {
		for _, e := range ends {
			if b < e && e <= 1<<29 {
				ivs = append(ivs, iv{b, e})
			}
		}
	}
	var oc int64
	parallel(len(ivs), func(i int) {
		a := ivs[i]
		ba := bam.VerifBinFor(a.b, a.e)
		for _, b := range ivs {
			if a.b < b.e && b.b < a.e {
				in := false
				for _, x := range bam.VerifOverlappingBinsFor(b.b, b.e) {
					if x == ba {
						in = true
						break
					}
				}
				atomic.AddInt64(&oc, 1)
				if !in {
					c.Violate("bai:overlap-consistency", fmt.Sprintf("bin %d of [%d,%d) is not in the bin list of the overlapping [%d,%d)", ba, a.b, a.e, b.b, b.e), c16case{Kind: "bai-overlap", Beg: int64(a.b), End: int64(a.e), Beg2: int64(b.b), End2: int64(b.e)})
					return
				}
			}
		}
	})
	c.AddExtra("bai_overlapping_pairs", oc)
	evals += oc
	nontriv += oc
	// ---- CSI vs spec at level boundaries
	// (14,7) and (20,5) span 2^35 positions: coordinates beyond 32 bits
	geoms := [][2]int{{14, 5}, {14, 6}, {12, 4}, {1, 2}, {0, 1}, {3, 3}, {2, 2}, {14, 7}, {20, 5}}
	var ce int64
	for _, g := range geoms {
		ms, d := g[0], g[1]
		max := int64(1) << uint(ms+3*d)
		pm := map[int64]bool{}
		for l := 0; l <= d; l++ {
			w := int64(1) << uint(ms+3*l)
			for k := int64(0); k*w <= max && k <= 9; k++ {
				for dd := int64(-1); dd <= 1; dd++ {
					if v := k*w + dd; v >= 0 && v <= max {
						pm[v] = true
					}
					if v := max - k*w + dd; v >= 0 && v <= max {
						pm[v] = true
					}
				}
			}
		}
		var ps []int64
		for v := range pm {
			ps = append(ps, v)
		}
		sort.Slice(ps, func(i, j int) bool { return ps[i] < ps[j] })
		for _, b := range ps {
			for _, e := range ps {
				if b == e && b > 0 {
					// zero-length interval: the specification's function still defines its bin ([beg, beg-1])
					c16csiBin(c, b, e, ms, d)
					ce++
				}
				if b < e {
					c16csiBin(c, b, e, ms, d)
					if ms+3*d <= 20 || e-b < int64(1)<<uint(ms+9) {
						c16csiBins(c, b, e, ms, d)
					}
					ce++
				}
			}
		}
	}
	c.AddExtra("csi_spec_intervals", ce)
	evals += ce
	nontriv += ce
	// ---- CSI overlap consistency: all overlapping interval pairs of small geometries
	small := [][2]int{{0, 1}, {1, 1}, {2, 1}, {0, 2}, {1, 2}, {2, 2}, {3, 1}, {5, 1}}
	if !c.Thorough {
		small = [][2]int{{0, 1}, {1, 1}, {0, 2}, {1, 2}, {3, 1}}
	}
	var pairs int64
	for _, g := range small {
		ms, d := g[0], g[1]
		n := 1 << uint(ms+3*d)
		nb := ((1 << uint(3*(d+1))) - 1) / 7
		type ivl struct{ b, e int }
		var all []ivl
		for b := 0; b < n; b++ {
			for e := b + 1; e <= n; e++ {
				all = append(all, ivl{b, e})
			}
		}
		// bins(B) as bitmaps, bin(A)
		binOf := make([]uint32, len(all))
		sets := make([][]bool, len(all))
		for i, x := range all {
			binOf[i] = csi.VerifReg2bin(int64(x.b), int64(x.e), uint32(ms), uint32(d))
			s := make([]bool, nb+1)
			for _, k := range csi.VerifReg2bins(int64(x.b), int64(x.e), uint32(ms), uint32(d)) {
				if int(k) < len(s) {
					s[k] = true
				}
			}
			sets[i] = s
		}
		var cnt int64
		parallel(len(all), func(i int) {
			a := all[i]
			var k int64
			for j, b := range all {
				if a.b < b.e && b.b < a.e {
					k++
					if int(binOf[i]) >= len(sets[j]) || !sets[j][binOf[i]] {
						c.Violate("csi:overlap-consistency", fmt.Sprintf("geometry (minShift %d, depth %d): bin %d of [%d,%d) is not in the bin list of the overlapping [%d,%d)", ms, d, binOf[i], a.b, a.e, b.b, b.e),
							c16case{Kind: "csi-overlap", Beg: int64(a.b), End: int64(a.e), Beg2: int64(b.b), End2: int64(b.e), MinShift: ms, Depth: d})
						break
					}
				}
			}
			atomic.AddInt64(&cnt, k)
		})
		pairs += cnt
	}
	c.AddExtra("csi_overlapping_pairs_all", pairs)
	evals += pairs
	nontriv += pairs
	// ---- records
	types := []sam.CigarOpType{sam.CigarMatch, sam.CigarInsertion, sam.CigarDeletion, sam.CigarSkipped, sam.CigarSoftClipped, sam.CigarHardClipped, sam.CigarPadded, sam.CigarEqual, sam.CigarMismatch, sam.CigarBack}
	lens := []int{1, 2, 1<<28 - 1}
	if c.Thorough {
		lens = []int{0, 1, 2, 1<<28 - 1}
	}
	var opsA []sam.CigarOp
	for _, t := range types {
		for _, l := range lens {
			opsA = append(opsA, sam.NewCigarOp(t, l))
		}
	}
	maxOps := 3
	var cigars [][]sam.CigarOp
	cigars = append(cigars, nil)
	level := [][]sam.CigarOp{nil}
	for n := 1; n <= maxOps; n++ {
		var next [][]sam.CigarOp
		for _, p := range level {
			for _, o := range opsA {
				next = append(next, append(append([]sam.CigarOp(nil), p...), o))
			}
		}
		cigars = append(cigars, next...)
		level = next
	}
	if c.Thorough {
		// four operations over the small lengths only
		var small4 []sam.CigarOp
		for _, t := range types {
			small4 = append(small4, sam.NewCigarOp(t, 1), sam.NewCigarOp(t, 2))
		}
		for _, a := range small4 {
			for _, b := range small4 {
				for _, d := range small4 {
					for _, e := range small4 {
						cigars = append(cigars, []sam.CigarOp{a, b, d, e})
					}
				}
			}
		}
	}
	var rn, rnt int64
	parallel(len(cigars), func(i int) {
		cg := cigars[i]
		ref, _ := specLengths(cg)
		for _, pos := range []int{0, 5, 1<<29 - 1 - ref, -1} {
			if pos < -1 {
				continue
			}
			for _, fl := range []sam.Flags{0, sam.Unmapped, sam.Unmapped | sam.MateUnmapped} {
				c16record(c, cg, pos, fl)
				atomic.AddInt64(&rn, 1)
				if len(cg) >= 2 {
					atomic.AddInt64(&rnt, 1)
				}
			}
		}
	})
	c.AddExtra("records", rn)
	evals += rn
	nontriv += rnt
	an := c16assigned(c)
	evals += an
	nontriv += an
	c.Eval(evals)
	c.NontrivialN(nontriv)
	c.Sample(c16case{Kind: "bai-bin", Beg: 1<<26 - 1, End: 1<<26 + 1})
	c.Sample(c16case{Kind: "csi-bin", Beg: 7, End: 9, MinShift: 1, Depth: 2})
	c.Sample(c16case{Kind: "record", Cigar: []uint32{uint32(sam.NewCigarOp(sam.CigarSoftClipped, 2)), uint32(sam.NewCigarOp(sam.CigarMatch, 1<<28-1)), uint32(sam.NewCigarOp(sam.CigarDeletion, 1))}, Pos: 5})
	c.Assume("refimpl/bins.go transcribes reg2bin/reg2bins from SAM v1 section 5.3 and the CSI specification")
}
