package main

import (
	"bytes"
	"encoding/json"
	"fmt"
	"net/url"
	"sort"
	"strings"
	"sync/atomic"
	"time"

	"github.com/biogo/hts/sam"
)

func init() { register("C07", "header", c07) }

// ---------------------------------------------------------------------------------------------
// part A: serialisation round trip over a product of header contents

type hdSpec struct {
	Version string   `json:"version"`
	SO      int      `json:"so"`
	GO      int      `json:"go"`
	Extra   []string `json:"extra,omitempty"` // "AB:x"
}

type c07rt struct {
	HD   hdSpec   `json:"hd"`
	Refs []int    `json:"refs"` // variant indexes
	RGs  []int    `json:"rgs"`
	PGs  []int    `json:"pgs"`
	CO   []string `json:"co"`
	TZ   string   `json:"tz"`
}

const nRefVariants = 6
const nRGVariants = 8
const nPGVariants = 2

func mkRef(variant, i int) *sam.Reference {
	name := fmt.Sprintf("chr%d", i)
	var r *sam.Reference
	var err error
	switch variant {
	case 0:
		r, err = sam.NewReference(name, "", "", 1000+i, nil, nil)
	case 1:
		r, err = sam.NewReference(name, "", "", 2000+i, []byte("0123456789abcdef"), nil)
	case 2:
		r, err = sam.NewReference(name, "asm1", "Homo sapiens", 3000+i, nil, nil)
	case 3:
		u, _ := url.Parse("file:///data/ref.fa")
		r, err = sam.NewReference(name, "", "", 4000+i, nil, u)
	case 4:
		u, _ := url.Parse("http://example.org/ref.fa")
		r, err = sam.NewReference(name, "", "", 5000+i, nil, u)
	case 5:
		r, err = sam.NewReference(name, "", "", 6000+i, nil, nil)
		if err == nil {
			err = r.Set(sam.NewTag("XY"), "custom value")
		}
	}
	if err != nil {
		panic(err)
	}
	return r
}

func mkRG(variant, i int) *sam.ReadGroup {
	name := fmt.Sprintf("rg%d", i)
	var rg *sam.ReadGroup
	var err error
	switch variant {
	case 0:
		rg, err = sam.NewReadGroup(name, "", "", "", "", "", "", "", "", "", time.Time{}, 0)
	case 1:
		rg, err = sam.NewReadGroup(name, "centre", "a description", "lib1", "prog", "ILLUMINA", "unit1", "sample1", "TACG", "TCAG", time.Date(2014, 8, 13, 16, 2, 1, 0, time.UTC), 300)
	case 2:
		rg, err = sam.NewReadGroup(name, "", "", "", "", "", "", "", "", "", time.Date(2014, 8, 13, 16, 2, 1, 0, time.UTC), 0)
	case 3:
		rg, err = sam.NewReadGroup(name, "", "", "", "", "", "", "", "", "", time.Date(2014, 8, 13, 16, 2, 1, 0, time.FixedZone("", 9*3600+1800)), 0)
	case 4:
		rg, err = sam.NewReadGroup(name, "", "", "", "", "", "", "", "", "", time.Date(2014, 8, 13, 16, 2, 1, 0, time.FixedZone("", -7*3600)), 0)
	case 5:
		rg, err = sam.NewReadGroup(name, "", "", "", "", "", "", "", "", "", time.Date(2014, 8, 13, 0, 0, 0, 0, time.UTC), 0)
	case 6:
		rg, err = sam.NewReadGroup(name, "", "", "lib", "", "", "pu", "", "", "", time.Time{}, -25)
	case 7:
		rg, err = sam.NewReadGroup(name, "", "", "", "", "", "", "", "*", "*", time.Time{}, 0)
	}
	if err != nil {
		panic(err)
	}
	return rg
}

func mkPG(variant, i int) *sam.Program {
	uid := fmt.Sprintf("pg%d", i)
	if variant == 0 {
		return sam.NewProgram(uid, "", "", "", "")
	}
	return sam.NewProgram(uid, "bwa", "bwa mem -t 4 ref.fa reads.fq", "", "0.7.17")
}

func buildHeader(s c07rt) (*sam.Header, error) {
	var refs []*sam.Reference
	for i, v := range s.Refs {
		refs = append(refs, mkRef(v, i))
	}
	h, err := sam.NewHeader(nil, refs)
	if err != nil {
		return nil, err
	}
	h.Version = s.HD.Version
	h.SortOrder = sam.SortOrder(s.HD.SO)
	h.GroupOrder = sam.GroupOrder(s.HD.GO)
	for _, e := range s.HD.Extra {
		if err := h.Set(sam.NewTag(e[:2]), e[3:]); err != nil {
			return nil, err
		}
	}
	for i, v := range s.RGs {
		if err := h.AddReadGroup(mkRG(v, i)); err != nil {
			return nil, err
		}
	}
	for i, v := range s.PGs {
		if err := h.AddProgram(mkPG(v, i)); err != nil {
			return nil, err
		}
	}
	h.Comments = append([]string(nil), s.CO...)
	return h, nil
}

// describe renders every value the public getters expose.
func describe(h *sam.Header) string {
	var sb strings.Builder
	fmt.Fprintf(&sb, "HD %q %v %v", h.Version, h.SortOrder, h.GroupOrder)
	h.Tags(func(t sam.Tag, v string) { fmt.Fprintf(&sb, " %s=%q", t, v) })
	for i, r := range h.Refs() {
		fmt.Fprintf(&sb, "\nSQ#%d id%d %q len%d md5%x as%q sp%q uri%q", i, r.ID(), r.Name(), r.Len(), r.MD5(), r.AssemblyID(), r.Species(), r.URI())
		r.Tags(func(t sam.Tag, v string) { fmt.Fprintf(&sb, " %s=%q", t, v) })
	}
	for i, g := range h.RGs() {
		fmt.Fprintf(&sb, "\nRG#%d id%d %q lib%q pu%q t%v", i, g.ID(), g.Name(), g.Library(), g.PlatformUnit(), g.Time().UTC())
		g.Tags(func(t sam.Tag, v string) { fmt.Fprintf(&sb, " %s=%q", t, v) })
	}
	for i, p := range h.Progs() {
		fmt.Fprintf(&sb, "\nPG#%d id%d %q n%q c%q p%q v%q", i, p.ID(), p.UID(), p.Name(), p.Command(), p.Previous(), p.Version())
		p.Tags(func(t sam.Tag, v string) { fmt.Fprintf(&sb, " %s=%q", t, v) })
	}
	for _, co := range h.Comments {
		fmt.Fprintf(&sb, "\nCO %q", co)
	}
	return sb.String()
}

// roundTrip checks text and binary serialisation of h; where names the case for messages.
func roundTrip(c *Ctx, h *sam.Header, sigPrefix, where string, cas interface{}) bool {
	t1, err := h.MarshalText()
	if err != nil {
		c.Violate(sigPrefix+":MarshalText-error", fmt.Sprintf("%s: MarshalText: %v", where, err), cas)
		return false
	}
	h2, err := sam.NewHeader(t1, nil)
	if err != nil {
		c.Violate(sigPrefix+":text-parse-error", fmt.Sprintf("%s: the header's own text does not parse: %v\n%s", where, err, t1), cas)
		return false
	}
	t2, _ := h2.MarshalText()
	if !bytes.Equal(t1, t2) {
		c.Violate(sigPrefix+":text-not-identical", fmt.Sprintf("%s: text re-parsed and re-serialised differs:\n%s---\n%s", where, t1, t2), cas)
		return false
	}
	if d1, d2 := describe(h), describe(h2); d1 != d2 {
		c.Violate(sigPrefix+":text-values-differ", fmt.Sprintf("%s: values exposed after a text round trip differ:\n%s\n---\n%s", where, d1, d2), cas)
		return false
	}
	b1, err := h.MarshalBinary()
	if err != nil {
		c.Violate(sigPrefix+":MarshalBinary-error", fmt.Sprintf("%s: MarshalBinary: %v", where, err), cas)
		return false
	}
	h3, _ := sam.NewHeader(nil, nil)
	if err := h3.UnmarshalBinary(b1); err != nil {
		c.Violate(sigPrefix+":binary-parse-error", fmt.Sprintf("%s: the header's own binary form does not parse: %v", where, err), cas)
		return false
	}
	b3, _ := h3.MarshalBinary()
	t3, _ := h3.MarshalText()
	if !bytes.Equal(b1, b3) || !bytes.Equal(t1, t3) {
		c.Violate(sigPrefix+":binary-not-identical", fmt.Sprintf("%s: binary form re-parsed and re-serialised differs (text after: %s)", where, t3), cas)
		return false
	}
	if d1, d3 := describe(h), describe(h3); d1 != d3 {
		c.Violate(sigPrefix+":binary-values-differ", fmt.Sprintf("%s: values exposed after a binary round trip differ:\n%s\n---\n%s", where, d1, d3), cas)
		return false
	}
	return true
}

func c07rtOne(c *Ctx, s c07rt) {
	guard(c, "roundtrip", s, func() {
		h, err := buildHeader(s)
		if err != nil {
			c.Violate("roundtrip:build-error", fmt.Sprintf("building %+v through the API failed: %v", s, err), s)
			return
		}
		roundTrip(c, h, "roundtrip", fmt.Sprintf("header %+v", s), s)
	})
}

func lists(n, maxLen int) [][]int {
	out := [][]int{{}}
	level := [][]int{{}}
	for l := 1; l <= maxLen; l++ {
		var next [][]int
		for _, p := range level {
			for v := 0; v < n; v++ {
				next = append(next, append(append([]int(nil), p...), v))
			}
		}
		out = append(out, next...)
		level = next
	}
	return out
}

// ---------------------------------------------------------------------------------------------
// part B: edit histories

type hop struct {
	Op string `json:"op"`
	I  int    `json:"i,omitempty"`
	N  string `json:"n,omitempty"`
}

func (o hop) String() string {
	switch o.Op {
	case "SetRefName", "SetRGName", "SetProgUID":
		return fmt.Sprintf("%s(%d,%q)", o.Op, o.I, o.N)
	case "Unmarshal":
		return fmt.Sprintf("UnmarshalText(%q)", o.N)
	}
	return fmt.Sprintf("%s(%d)", o.Op, o.I)
}

type c07edit struct {
	Ops []hop `json:"ops"`
}

func hopsString(ops []hop) string {
	var s []string
	for _, o := range ops {
		s = append(s, o.String())
	}
	return strings.Join(s, "; ")
}

var c07lines = []string{
	"@SQ\tSN:a\tLN:100",
	"@SQ\tSN:a\tLN:100\tAS:asm",
	"@SQ\tSN:d\tLN:40",
	"@RG\tID:g1",
	"@RG\tID:g3\tSM:s",
	"@PG\tID:p1",
	"@PG\tID:p3\tPN:x",
}

func editMenu() []hop {
	var m []hop
	for i := 0; i < 5; i++ {
		m = append(m, hop{Op: "AddRef", I: i})
	}
	for i := 0; i < 3; i++ {
		m = append(m, hop{Op: "RemoveRef", I: i})
	}
	for i := 0; i < 2; i++ {
		for _, n := range []string{"a", "b", "c"} {
			m = append(m, hop{Op: "SetRefName", I: i, N: n})
		}
	}
	for i := 0; i < 2; i++ {
		m = append(m, hop{Op: "AddRG", I: i}, hop{Op: "RemoveRG", I: i}, hop{Op: "AddProg", I: i}, hop{Op: "RemoveProg", I: i})
	}
	m = append(m, hop{Op: "SetRGName", I: 0, N: "g2"}, hop{Op: "SetProgUID", I: 0, N: "p2"})
	m = append(m, hop{Op: "Clone"})
	for i := 0; i < 3; i++ {
		m = append(m, hop{Op: "Merge", I: i})
	}
	m = append(m, hop{Op: "Merge", I: 100}) // partner 3
	// three sources: the header and two partners (I = 3*first + second)
	for _, pq := range [][2]int{{0, 2}, {2, 0}, {0, 1}, {1, 2}, {2, 2}} {
		m = append(m, hop{Op: "Merge", I: 3 + 3*pq[0] + pq[1]})
	}
	for i := range c07lines {
		m = append(m, hop{Op: "Unmarshal", I: i, N: c07lines[i]})
	}
	return m
}

// prepared items: references 0 and 1 share the name "a" with different optional tags,
// 2 is "b", 3 equals reference 0.
func prepRef(i int) *sam.Reference {
	var r *sam.Reference
	switch i {
	case 0, 3:
		r, _ = sam.NewReference("a", "", "", 100, nil, nil)
	case 1:
		r, _ = sam.NewReference("a", "asm", "", 100, nil, nil)
	case 2:
		r, _ = sam.NewReference("b", "", "", 200, nil, nil)
	case 4: // "a" again, with a checksum
		r, _ = sam.NewReference("a", "", "", 100, bytes.Repeat([]byte{0x11}, 16), nil)
	case 5: // "a" with another checksum
		r, _ = sam.NewReference("a", "", "", 100, bytes.Repeat([]byte{0x22}, 16), nil)
	}
	return r
}

func partner(i int) *sam.Header {
	var refs []*sam.Reference
	switch i {
	case 0: // equal to what AddRef(0), AddRef(2) give
		refs = []*sam.Reference{prepRef(0), prepRef(2)}
	case 1: // disjoint
		x, _ := sam.NewReference("x", "", "", 300, nil, nil)
		y, _ := sam.NewReference("y", "", "", 400, nil, nil)
		refs = []*sam.Reference{x, y}
	case 2: // same names, other order, extra tags
		refs = []*sam.Reference{prepRef(2), prepRef(1)}
	case 3: // a common reference carrying a different checksum
		refs = []*sam.Reference{prepRef(5), prepRef(2)}
	}
	h, _ := sam.NewHeader(nil, refs)
	return h
}

// applyOp applies one operation; errors returned by the API are fine (the operation was
// refused), what matters is the state afterwards. It returns the header to continue with and,
// for Clone/Merge, extra headers that must stay intact.
type editState struct {
	h      *sam.Header
	frozen []frozenHeader // headers that later operations must not change
}

type frozenHeader struct {
	h    *sam.Header
	text string
	why  string
}

// snapshot is everything a header exposes plus its private identity tables (name -> id maps,
// ids and owner flags, through the verif hook): a header that must stay intact must keep all of it.
func snapshot(h *sam.Header) string {
	t, _ := h.MarshalText()
	return string(t) + "\n" + describe(h) + "\n" + h.VerifDump()
}

func applyOp(c *Ctx, st *editState, o hop, cas c07edit) bool {
	h := st.h
	get := func(n int, i int) bool { return i < n }
	switch o.Op {
	case "AddRef":
		h.AddReference(prepRef(o.I))
	case "RemoveRef":
		if get(len(h.Refs()), o.I) {
			h.RemoveReference(h.Refs()[o.I])
		}
	case "SetRefName":
		if get(len(h.Refs()), o.I) {
			h.Refs()[o.I].SetName(o.N)
		}
	case "AddRG":
		rg, _ := sam.NewReadGroup(fmt.Sprintf("g%d", o.I), "", "", "", "", "", "", "", "", "", time.Time{}, 0)
		h.AddReadGroup(rg)
	case "RemoveRG":
		if get(len(h.RGs()), o.I) {
			h.RemoveReadGroup(h.RGs()[o.I])
		}
	case "SetRGName":
		if get(len(h.RGs()), o.I) {
			h.RGs()[o.I].SetName(o.N)
		}
	case "AddProg":
		h.AddProgram(sam.NewProgram(fmt.Sprintf("p%d", o.I), "", "", "", ""))
	case "RemoveProg":
		if get(len(h.Progs()), o.I) {
			h.RemoveProgram(h.Progs()[o.I])
		}
	case "SetProgUID":
		if get(len(h.Progs()), o.I) {
			h.Progs()[o.I].SetUID(o.N)
		}
	case "Clone":
		st.frozen = append(st.frozen, frozenHeader{h, snapshot(h), "the original of a Clone"})
		st.h = h.Clone()
	case "Merge":
		srcs := []*sam.Header{h, partner(o.I)}
		if o.I == 100 {
			srcs = []*sam.Header{h, partner(3)}
		} else if o.I >= 3 {
			srcs = []*sam.Header{h, partner((o.I - 3) / 3), partner((o.I - 3) % 3)}
		}
		var before []string
		for _, s := range srcs {
			before = append(before, snapshot(s))
		}
		var names [][]string
		var lens [][]int
		for _, s := range srcs {
			var ns []string
			var ls []int
			for _, r := range s.Refs() {
				ns = append(ns, r.Name())
				ls = append(ls, r.Len())
			}
			names = append(names, ns)
			lens = append(lens, ls)
		}
		m, links, err := sam.MergeHeaders(srcs)
		if err != nil {
			return true // refused (e.g. same name with different length): state unchanged
		}
		for si, s := range srcs {
			if snapshot(s) != before[si] {
				c.Violate("edit:merge-changed-source", fmt.Sprintf("MergeHeaders changed source header %d\nhistory: %s", si, hopsString(cas.Ops)), cas)
				return false
			}
			if len(links[si]) != len(names[si]) {
				c.Violate("edit:merge-links-length", fmt.Sprintf("MergeHeaders returned %d links for source %d with %d references\nhistory: %s", len(links[si]), si, len(names[si]), hopsString(cas.Ops)), cas)
				return false
			}
			for ri, l := range links[si] {
				ok := l != nil && l.Name() == names[si][ri] && l.Len() == lens[si][ri] && l.ID() >= 0 && l.ID() < len(m.Refs()) && m.Refs()[l.ID()] == l
				if !ok {
					c.Violate("edit:merge-link-wrong", fmt.Sprintf("MergeHeaders: reference %d (%s, %d) of source %d is linked to %v (id %d), which is not the reference of the merged header with that name and length\nhistory: %s", ri, names[si][ri], lens[si][ri], si, l, l.ID(), hopsString(cas.Ops)), cas)
					return false
				}
			}
		}
		st.frozen = append(st.frozen, frozenHeader{h, before[0], "a source of MergeHeaders"})
		st.h = m
	case "Unmarshal":
		h.UnmarshalText([]byte(o.N))
	}
	return true
}

// invariants of the property, evaluated through the public API.
func checkState(c *Ctx, st *editState, cas c07edit) bool {
	h := st.h
	hist := hopsString(cas.Ops)
	last := cas.Ops[len(cas.Ops)-1].Op
	names := map[string]bool{}
	for i, r := range h.Refs() {
		if r == nil || r.ID() != i {
			c.Violate("edit:ref-id-not-index:after-"+last, fmt.Sprintf("Refs()[%d] has ID %d\nhistory: %s", i, r.ID(), hist), cas)
			return false
		}
		if names[r.Name()] {
			c.Violate("edit:ref-name-duplicate:after-"+last, fmt.Sprintf("two references are named %q\nhistory: %s", r.Name(), hist), cas)
			return false
		}
		names[r.Name()] = true
	}
	names = map[string]bool{}
	for i, g := range h.RGs() {
		if g.ID() != i {
			c.Violate("edit:rg-id-not-index:after-"+last, fmt.Sprintf("RGs()[%d] has ID %d\nhistory: %s", i, g.ID(), hist), cas)
			return false
		}
		if names[g.Name()] {
			c.Violate("edit:rg-name-duplicate:after-"+last, fmt.Sprintf("two read groups are named %q\nhistory: %s", g.Name(), hist), cas)
			return false
		}
		names[g.Name()] = true
	}
	names = map[string]bool{}
	for i, p := range h.Progs() {
		if p.ID() != i {
			c.Violate("edit:prog-id-not-index:after-"+last, fmt.Sprintf("Progs()[%d] has ID %d\nhistory: %s", i, p.ID(), hist), cas)
			return false
		}
		if names[p.UID()] {
			c.Violate("edit:prog-uid-duplicate:after-"+last, fmt.Sprintf("two programs have UID %q\nhistory: %s", p.UID(), hist), cas)
			return false
		}
		names[p.UID()] = true
	}
	for _, f := range st.frozen {
		if snapshot(f.h) != f.text {
			c.Violate("edit:aliasing:after-"+last, fmt.Sprintf("%s was changed by a later operation on the derived header\nhistory: %s", f.why, hist), cas)
			return false
		}
	}
	// the private name tables agree with the items: one entry per item, mapping its name to its id
	if msg := tablesConsistent(h); msg != "" {
		c.Violate("edit:name-table-out-of-step:after-"+last, fmt.Sprintf("%s\ntables and items: %s\nhistory: %s", msg, h.VerifDump(), hist), cas)
		return false
	}
	// ownership, directly: every item reachable from the header names this header as its owner
	if d := h.VerifDump(); strings.Contains(d, "ownfalse") {
		c.Violate("edit:item-owned-by-another-header:after-"+last, fmt.Sprintf("an item reachable from the header is owned by another header (or none): %s\nhistory: %s", d, hist), cas)
		return false
	}
	// ownership: an item reachable from the header cannot be added to another header
	other, _ := sam.NewHeader(nil, nil)
	for _, r := range h.Refs() {
		cl := r.Clone() // same name in the other header would take the duplicate path: use a fresh name
		_ = cl
		probe, _ := sam.NewHeader(nil, nil)
		if err := probe.AddReference(r); err == nil && len(probe.Refs()) == 1 && probe.Refs()[0] == r {
			c.Violate("edit:ref-not-owned:after-"+last, fmt.Sprintf("reference %q reachable from the header is not owned by it (another header accepted it)\nhistory: %s", r.Name(), hist), cas)
			return false
		}
	}
	for _, g := range h.RGs() {
		if err := other.AddReadGroup(g); err == nil {
			c.Violate("edit:rg-not-owned:after-"+last, fmt.Sprintf("read group %q reachable from the header is not owned by it\nhistory: %s", g.Name(), hist), cas)
			return false
		}
	}
	for _, p := range h.Progs() {
		if err := other.AddProgram(p); err == nil {
			c.Violate("edit:prog-not-owned:after-"+last, fmt.Sprintf("program %q reachable from the header is not owned by it\nhistory: %s", p.UID(), hist), cas)
			return false
		}
	}
	return roundTrip(c, h, "edit:roundtrip:after-"+last, "history: "+hist, cas)
}

// tablesConsistent parses the verif hook's dump ("refs{name:id ...}rgs{...}pgs{...}[r name idN ownB]...")
// and checks that every table has exactly one entry per item of its kind, name -> id.
func tablesConsistent(h *sam.Header) string {
	d := h.VerifDump()
	tables := map[string]map[string]string{}
	for _, k := range []string{"refs", "rgs", "pgs"} {
		i := strings.Index(d, k+"{")
		if i < 0 {
			return "dump lacks table " + k
		}
		j := strings.Index(d[i:], "}")
		t := map[string]string{}
		for _, e := range strings.Fields(d[i+len(k)+1 : i+j]) {
			c := strings.LastIndex(e, ":")
			t[e[:c]] = e[c+1:]
		}
		tables[k] = t
	}
	count := map[string]int{}
	kindOf := map[string]string{"r": "refs", "g": "rgs", "p": "pgs"}
	rest := d[strings.Index(d, "pgs{"):]
	rest = rest[strings.Index(rest, "}")+1:]
	for _, it := range strings.Split(rest, "[") {
		f := strings.Fields(strings.TrimSuffix(it, "]"))
		if len(f) < 3 {
			continue
		}
		k := kindOf[f[0]]
		name, id := strings.Join(f[1:len(f)-2], " "), strings.TrimPrefix(f[len(f)-2], "id")
		count[k]++
		if got, ok := tables[k][name]; !ok || got != id {
			return fmt.Sprintf("%s table maps %q to %q (present %v), the item has id %s", k, name, got, ok, id)
		}
	}
	for k, t := range tables {
		if len(t) != count[k] {
			return fmt.Sprintf("%s table has %d entries for %d items", k, len(t), count[k])
		}
	}
	return ""
}

// runEdit replays a history on a fresh header and checks the state after the last operation.
func runEdit(c *Ctx, cas c07edit) (key string, ok bool) {
	ok = guard(c, "edit:"+cas.Ops[len(cas.Ops)-1].Op, cas, func() {
		h, _ := sam.NewHeader(nil, nil)
		h.Version = "1.6"
		st := &editState{h: h}
		for _, o := range cas.Ops {
			if !applyOp(c, st, o, cas) {
				ok = false
				return
			}
		}
		if !checkState(c, st, cas) {
			ok = false
			return
		}
		t, _ := st.h.MarshalText()
		key = string(t) + "|" + st.h.VerifDump()
		ok = true
	})
	return key, ok && key != ""
}

func c07(c *Ctx) {
	c.Rule = "round trip: each header section enumerated as a full product with the other sections at two contexts (empty, populated): @HD version {'' , 1.6} x SO (4) x GO (4) x 0-2 extra tags; every list of 0-3 references over 6 variants (bare, M5, AS+SP, UR file, UR http, custom tag); every list of 0-2 read groups over 8 variants (bare, all optional fields, dates in UTC/+0930/-0700/date-only, negative PI, FO/KS '*'); lists of 0-2 programs over 2 variants; comments {none, x, 'a b', two}; under time.Local = UTC and +09:30; text and binary: parse(serialise(h)) serialises identically and exposes equal values. edit histories: BFS with de-duplication (key = text + private identity tables) to depth 4 (thorough 7) over {AddReference of 5 prepared references (three share a name with different tags/checksums, one equals an existing one), RemoveReference(i), SetName, Add/Remove read group and program, SetName/SetUID, Clone (continue on the clone, original must stay intact), MergeHeaders with each of 4 partner headers (one carrying a different checksum for a common reference) and with 5 ordered pairs of them (three sources), UnmarshalText of 7 extra lines incl. duplicate names}; in every state: ids equal indexes, names unique, name tables in step with the items (hook), items owned, originals untouched, merge links correct, serialisation round trip. Non-trivial: states with at least two items."
	if c.Replay != nil {
		var probe struct {
			Ops []hop `json:"ops"`
		}
		json.Unmarshal(c.Replay, &probe)
		if probe.Ops != nil {
			runEdit(c, c07edit{Ops: probe.Ops})
			return
		}
		var s c07rt
		if err := json.Unmarshal(c.Replay, &s); err != nil {
			c.Infra = err.Error()
			return
		}
		setTZ(s.TZ)
		c07rtOne(c, s)
		return
	}
	// ---- part A
	var hds []hdSpec
	hds = append(hds, hdSpec{})
	for so := 0; so < 4; so++ {
		for gord := 0; gord < 4; gord++ {
			for _, ex := range [][]string{nil, {"AB:x"}, {"AB:x", "CD:y z"}} {
				hds = append(hds, hdSpec{Version: "1.6", SO: so, GO: gord, Extra: ex})
			}
		}
	}
	refLists := lists(nRefVariants, 3)
	rgLists := lists(nRGVariants, 2)
	pgLists := lists(nPGVariants, 2)
	cos := [][]string{nil, {"x"}, {"a b"}, {"first", "second\twith tab"}}
	full := c07rt{HD: hdSpec{Version: "1.6", SO: 3, GO: 2, Extra: []string{"AB:x"}}, Refs: []int{1, 2}, RGs: []int{1}, PGs: []int{1}, CO: []string{"x"}}
	empty := c07rt{HD: hdSpec{Version: "1.6"}}
	var cases []c07rt
	for _, tz := range []string{"UTC", "+0930"} {
		for _, ctx := range []c07rt{empty, full} {
			for _, x := range hds {
				s := ctx
				s.HD, s.TZ = x, tz
				cases = append(cases, s)
			}
			for _, x := range refLists {
				s := ctx
				s.Refs, s.TZ = x, tz
				cases = append(cases, s)
			}
			for _, x := range rgLists {
				s := ctx
				s.RGs, s.TZ = x, tz
				cases = append(cases, s)
			}
			for _, x := range pgLists {
				s := ctx
				s.PGs, s.TZ = x, tz
				cases = append(cases, s)
			}
			for _, x := range cos {
				s := ctx
				s.CO, s.TZ = x, tz
				cases = append(cases, s)
			}
		}
	}
	// time.Local is process-global: run the two zones one after the other
	for _, tz := range []string{"UTC", "+0930"} {
		setTZ(tz)
		var sub []c07rt
		for _, s := range cases {
			if s.TZ == tz {
				sub = append(sub, s)
			}
		}
		parallel(len(sub), func(i int) { c07rtOne(c, sub[i]) })
	}
	setTZ("UTC")
	c.Eval(int64(len(cases)))
	var nt int64
	for _, s := range cases {
		if len(s.Refs)+len(s.RGs)+len(s.PGs) >= 2 {
			nt++
		}
	}
	c.NontrivialN(nt)
	c.AddExtra("roundtrip_headers", int64(len(cases)))
	c.Sample(cases[len(cases)/2])
	// ---- part B
	menu := editMenu()
	maxDepth := 4
	if c.Thorough {
		maxDepth = 7
	}
	seen := map[string]bool{}
	frontier := [][]hop{nil}
	var states, transitions, nontriv int64
	depth := 0
	for len(frontier) > 0 && depth < maxDepth {
		depth++
		type succ struct {
			ops []hop
			key string
		}
		results := make([][]succ, len(frontier))
		parallel(len(frontier), func(i int) {
			for _, o := range menu {
				ops := append(append([]hop(nil), frontier[i]...), o)
				key, ok := runEdit(c, c07edit{Ops: ops})
				atomic.AddInt64(&transitions, 1)
				if ok {
					results[i] = append(results[i], succ{ops, key})
				}
			}
		})
		var next [][]hop
		for _, rs := range results {
			for _, s := range rs {
				if !seen[s.key] {
					seen[s.key] = true
					states++
					if strings.Count(s.key, "[") >= 2 {
						nontriv++
					}
					next = append(next, s.ops)
				}
			}
		}
		sort.Slice(next, func(i, j int) bool { return hopsString(next[i]) < hopsString(next[j]) })
		frontier = next
	}
	if len(frontier) > 0 {
		c.AddExtra("edit_search_depth_completed", int64(depth))
		c.AddExtra("edit_frontier_left", int64(len(frontier)))
	} else {
		c.AddExtra("edit_search_fixpoint_at_depth", int64(depth))
	}
	c.Eval(transitions)
	c.NontrivialN(nontriv)
	c.AddStates(states, transitions, transitions)
	c.Sample(c07edit{Ops: []hop{{Op: "AddRef", I: 0}, {Op: "AddRef", I: 2}, {Op: "RemoveRef", I: 0}, {Op: "AddRef", I: 2}}})
}

func setTZ(tz string) {
	if tz == "+0930" {
		time.Local = time.FixedZone("ACST", 9*3600+1800)
	} else {
		time.Local = time.UTC
	}
}
