package main

import (
	"bytes"
	"encoding/hex"
	"encoding/json"
	"fmt"
	"io"
	"math"
	"reflect"
	"strings"
	"time"

	"github.com/biogo/hts/bam"
	"github.com/biogo/hts/sam"

	"verif/refimpl"
)

// C05 (BAM round trip) and C06 (SAM text) share the record domain.

func init() {
	register("C05", "bam", c05)
	register("C06", "sam", c06)
}

var recRefs = []refimpl.RefInfo{{Name: "chr1", Len: 1<<31 - 1}, {Name: "chr2", Len: 5000}}

func recHeader() *sam.Header {
	var refs []*sam.Reference
	for _, r := range recRefs {
		x, err := sam.NewReference(r.Name, "", "", r.Len, nil, nil)
		if err != nil {
			panic(err)
		}
		refs = append(refs, x)
	}
	h, err := sam.NewHeader(nil, refs)
	if err != nil {
		panic(err)
	}
	h.Version = "1.6"
	h.SortOrder = sam.Unsorted
	return h
}

func mkAux(f refimpl.AuxField) (sam.Aux, error) {
	t := sam.NewTag(f.Tag)
	switch f.Type {
	case 'A':
		return sam.NewAux(t, sam.ASCII(byte(f.Int)))
	case 'c':
		return sam.NewAux(t, int8(f.Int))
	case 'C':
		return sam.NewAux(t, uint8(f.Int))
	case 's':
		return sam.NewAux(t, int16(f.Int))
	case 'S':
		return sam.NewAux(t, uint16(f.Int))
	case 'i':
		return sam.NewAux(t, int32(f.Int))
	case 'I':
		return sam.NewAux(t, uint32(f.Int))
	case 'f':
		return sam.NewAux(t, f.Float)
	case 'Z':
		return sam.NewAux(t, sam.Text(f.Str))
	case 'H':
		raw, err := hex.DecodeString(f.Str)
		if err != nil {
			return nil, err
		}
		return sam.NewAux(t, sam.Hex(raw))
	case 'B':
		switch f.Sub {
		case 'c':
			v := make([]int8, len(f.Ints))
			for i, x := range f.Ints {
				v[i] = int8(x)
			}
			return sam.NewAux(t, v)
		case 'C':
			v := make([]uint8, len(f.Ints))
			for i, x := range f.Ints {
				v[i] = uint8(x)
			}
			return sam.NewAux(t, v)
		case 's':
			v := make([]int16, len(f.Ints))
			for i, x := range f.Ints {
				v[i] = int16(x)
			}
			return sam.NewAux(t, v)
		case 'S':
			v := make([]uint16, len(f.Ints))
			for i, x := range f.Ints {
				v[i] = uint16(x)
			}
			return sam.NewAux(t, v)
		case 'i':
			v := make([]int32, len(f.Ints))
			for i, x := range f.Ints {
				v[i] = int32(x)
			}
			return sam.NewAux(t, v)
		case 'I':
			v := make([]uint32, len(f.Ints))
			for i, x := range f.Ints {
				v[i] = uint32(x)
			}
			return sam.NewAux(t, v)
		case 'f':
			return sam.NewAux(t, append([]float32{}, f.Flts...))
		}
	}
	return nil, fmt.Errorf("bad aux spec %+v", f)
}

// toSam builds the library's record for a neutral record description.
func toSam(r *refimpl.Rec, h *sam.Header) (*sam.Record, error) {
	rec := &sam.Record{Name: r.Name, Pos: r.Pos, MapQ: byte(r.MapQ), Flags: sam.Flags(r.Flags), MatePos: r.MatePos, TempLen: r.TLen}
	if r.RefID >= 0 {
		rec.Ref = h.Refs()[r.RefID]
	}
	if r.MateRefID >= 0 {
		rec.MateRef = h.Refs()[r.MateRefID]
	}
	for _, c := range r.Cigar {
		rec.Cigar = append(rec.Cigar, sam.CigarOp(c))
	}
	rec.Seq = sam.NewSeq([]byte(r.Seq))
	if r.Qual != nil {
		rec.Qual = append([]byte{}, r.Qual...)
	}
	for _, f := range r.Aux {
		a, err := mkAux(f)
		if err != nil {
			return nil, err
		}
		rec.AuxFields = append(rec.AuxFields, a)
	}
	return rec, nil
}

func auxValueString(f refimpl.AuxField) string {
	switch f.Type {
	case 'A':
		return fmt.Sprintf("A:%c", byte(f.Int))
	case 'c', 'C', 's', 'S', 'i', 'I':
		return fmt.Sprintf("%c:%d", f.Type, f.Int)
	case 'f':
		return fmt.Sprintf("f:%x", math.Float32bits(f.Float))
	case 'Z':
		return "Z:" + f.Str
	case 'H':
		return "H:" + strings.ToUpper(f.Str)
	}
	if f.Sub == 'f' {
		var bits []uint32
		for _, x := range f.Flts {
			bits = append(bits, math.Float32bits(x))
		}
		return fmt.Sprintf("B:f:%x", bits)
	}
	return fmt.Sprintf("B:%c:%v", f.Sub, f.Ints)
}

// auxOf renders an Aux read back from the library in the same form as auxValueString.
func auxOf(a sam.Aux) string {
	v := a.Value()
	switch a.Type() {
	case 'A':
		return fmt.Sprintf("A:%c", v)
	case 'c', 'C', 's', 'S', 'i', 'I':
		return fmt.Sprintf("%c:%d", a.Type(), v)
	case 'f':
		return fmt.Sprintf("f:%x", math.Float32bits(v.(float32)))
	case 'Z':
		return "Z:" + v.(string)
	case 'H':
		// the in-memory value of an H field is the decoded byte array
		return "H:" + strings.ToUpper(hex.EncodeToString(v.([]byte)))
	case 'B':
		if f, ok := v.([]float32); ok {
			var bits []uint32
			for _, x := range f {
				bits = append(bits, math.Float32bits(x))
			}
			return fmt.Sprintf("B:f:%x", bits)
		}
		rv := reflect.ValueOf(v)
		ints := make([]int64, rv.Len())
		for i := range ints {
			e := rv.Index(i)
			if e.Kind() >= reflect.Uint && e.Kind() <= reflect.Uint64 {
				ints[i] = int64(e.Uint())
			} else {
				ints[i] = e.Int()
			}
		}
		return fmt.Sprintf("B:%c:%v", a[3], ints)
	}
	return "?"
}

// skipAux makes compareRecord ignore the aux fields (the caller compares them itself).
const skipAux = -7

// compareRecord checks a record read back against its description; omit is the reader's Omit mode.
func compareRecord(want *refimpl.Rec, got *sam.Record, h *sam.Header, omit int) string {
	refOf := func(id int) *sam.Reference {
		if id < 0 {
			return nil
		}
		return h.Refs()[id]
	}
	switch {
	case got.Name != want.Name:
		return fmt.Sprintf("name %q, want %q", got.Name, want.Name)
	case got.Ref != refOf(want.RefID):
		return fmt.Sprintf("reference %v, want id %d", got.Ref, want.RefID)
	case got.MateRef != refOf(want.MateRefID):
		return fmt.Sprintf("mate reference %v, want id %d", got.MateRef, want.MateRefID)
	case got.Pos != want.Pos || got.MatePos != want.MatePos || got.TempLen != want.TLen:
		return fmt.Sprintf("pos/matepos/tlen %d/%d/%d, want %d/%d/%d", got.Pos, got.MatePos, got.TempLen, want.Pos, want.MatePos, want.TLen)
	case int(got.MapQ) != want.MapQ || int(got.Flags) != want.Flags:
		return fmt.Sprintf("mapq/flags %d/%d, want %d/%d", got.MapQ, got.Flags, want.MapQ, want.Flags)
	case len(got.Cigar) != len(want.Cigar):
		return fmt.Sprintf("%d cigar ops, want %d", len(got.Cigar), len(want.Cigar))
	}
	for i, c := range want.Cigar {
		if uint32(got.Cigar[i]) != c {
			return fmt.Sprintf("cigar op %d = %v, want %d%c", i, got.Cigar[i], c>>4, "MIDNSHP=XB"[c&0xf])
		}
	}
	if omit != skipAux && omit >= bam.AllVariableLengthData {
		if got.Seq.Length != 0 || len(got.Qual) != 0 || len(got.AuxFields) != 0 {
			return "Omit(AllVariableLengthData) returned sequence, qualities or aux fields"
		}
		return ""
	}
	if got.Seq.Length != len(want.Seq) || string(got.Seq.Expand()) != want.Seq {
		return fmt.Sprintf("sequence %q (length %d), want %q", got.Seq.Expand(), got.Seq.Length, want.Seq)
	}
	if want.Qual == nil {
		for _, q := range got.Qual {
			if q != 0xff {
				return fmt.Sprintf("qualities %v, want absent (0xff)", got.Qual)
			}
		}
		if len(got.Qual) != 0 && len(got.Qual) != len(want.Seq) {
			return fmt.Sprintf("%d quality values for %d bases", len(got.Qual), len(want.Seq))
		}
	} else if !bytes.Equal(got.Qual, want.Qual) {
		return fmt.Sprintf("qualities %v, want %v", got.Qual, want.Qual)
	}
	if omit == skipAux {
		return ""
	}
	if omit >= bam.AuxTags {
		if len(got.AuxFields) != 0 {
			return "Omit(AuxTags) returned aux fields"
		}
		return ""
	}
	if len(got.AuxFields) != len(want.Aux) {
		return fmt.Sprintf("%d aux fields, want %d", len(got.AuxFields), len(want.Aux))
	}
	for i, f := range want.Aux {
		a := got.AuxFields[i]
		if a.Tag().String() != f.Tag || auxOf(a) != auxValueString(f) {
			return fmt.Sprintf("aux field %d = %s:%s, want %s:%s", i, a.Tag(), auxOf(a), f.Tag, auxValueString(f))
		}
	}
	return ""
}

// ---------------------------------------------------------------------------------------------
// record domain

func cig(op byte, n int) uint32 { return uint32(n)<<4 | uint32(strings.IndexByte("MIDNSHP=XB", op)) }

func baseRec(name string) refimpl.Rec {
	return refimpl.Rec{Name: name, RefID: 0, Pos: 100, MapQ: 30, MateRefID: -1, MatePos: -1, Cigar: []uint32{cig('M', 4)}, Seq: "ACGT", Qual: []byte{30, 31, 32, 33}}
}

func seqOf(n int) string {
	b := make([]byte, n)
	for i := range b {
		b[i] = "=ACMGRSVTWYHKDBN"[i%16]
	}
	return string(b)
}

func qualOf(n int) []byte {
	b := make([]byte, n)
	for i := range b {
		b[i] = byte(i % 94)
	}
	return b
}

// auxAlphabet: every single-field class of the property.
func auxAlphabet() []refimpl.AuxField {
	var fs []refimpl.AuxField
	add := func(f refimpl.AuxField) {
		f.Tag = fmt.Sprintf("X%c", 'a'+len(fs)%26)
		fs = append(fs, f)
	}
	add(refimpl.AuxField{Type: 'A', Int: '!'})
	add(refimpl.AuxField{Type: 'A', Int: '~'})
	for _, t := range []struct {
		t        byte
		min, max int64
	}{{'c', -128, 127}, {'C', 0, 255}, {'s', -32768, 32767}, {'S', 0, 65535}, {'i', math.MinInt32, math.MaxInt32}, {'I', 0, math.MaxUint32}} {
		for _, v := range []int64{t.min, 0, t.max} {
			add(refimpl.AuxField{Type: t.t, Int: v})
		}
	}
	for _, v := range []float32{0, -1.5, 3.4e38, float32(math.Inf(1)), float32(math.Inf(-1))} {
		add(refimpl.AuxField{Type: 'f', Float: v})
	}
	add(refimpl.AuxField{Type: 'Z', Str: ""})
	add(refimpl.AuxField{Type: 'Z', Str: "x y"})
	add(refimpl.AuxField{Type: 'Z', Str: " lead and trail "}) // Z is [ !-~]*: blanks at either end are data
	add(refimpl.AuxField{Type: 'Z', Str: " "})
	add(refimpl.AuxField{Type: 'H', Str: ""})
	add(refimpl.AuxField{Type: 'H', Str: "1ae3"}) // the case of hex digits is not judged: lower case as the library writes it
	for _, sub := range []byte("cCsSiI") {
		add(refimpl.AuxField{Type: 'B', Sub: sub, Ints: []int64{}})
		add(refimpl.AuxField{Type: 'B', Sub: sub, Ints: []int64{1}})
		add(refimpl.AuxField{Type: 'B', Sub: sub, Ints: []int64{0, 100, 7}})
	}
	// arrays holding the extreme and the sign-boundary values of their element type
	for _, t := range []struct {
		sub  byte
		vals []int64
	}{{'c', []int64{-128, -1, 127}}, {'C', []int64{127, 128, 255}}, {'s', []int64{-32768, -1, 32767}}, {'S', []int64{32767, 32768, 65535}},
		{'i', []int64{math.MinInt32, -1, math.MaxInt32}}, {'I', []int64{math.MaxInt32, math.MaxInt32 + 1, math.MaxUint32}}} {
		add(refimpl.AuxField{Type: 'B', Sub: t.sub, Ints: t.vals})
	}
	add(refimpl.AuxField{Type: 'B', Sub: 'f', Flts: []float32{}})
	add(refimpl.AuxField{Type: 'B', Sub: 'f', Flts: []float32{1.5}})
	add(refimpl.AuxField{Type: 'B', Sub: 'f', Flts: []float32{0, -2.25, 1e10}})
	return fs
}

// seqLenForBody returns the sequence length that makes the record body (block_size) exactly
// body bytes, given the rest of the record.
func seqLenForBody(r refimpl.Rec, body int) int {
	for l := 0; l < 2*body; l++ {
		r.Seq, r.Qual = seqOf(l), qualOf(l)
		if n := len(refimpl.BAMRecord(&r)) - 4; n == body {
			return l
		} else if n > body {
			return l - 1
		}
	}
	return 0
}

func c05groups(thorough bool) map[string][]refimpl.Rec {
	g := map[string][]refimpl.Rec{}
	n := 0
	name := func() string { n++; return fmt.Sprintf("q%d", n) }
	// G1: scalars
	refsMates := [][2]int{{-1, -1}, {-1, 0}, {0, -1}, {0, 0}, {0, 1}, {1, -1}, {1, 0}, {1, 1}, {-1, 1}}
	tlens := []int{math.MinInt32, 0, math.MaxInt32}
	mposs := []int{-1, 0, 1<<31 - 2}
	if !thorough {
		tlens = []int{0, math.MinInt32}
		mposs = []int{-1, 1<<31 - 2}
	}
	for _, nl := range []int{1, 2, 254} {
		for _, fl := range []int{0, 4, 1 | 8 | 4, 0xffff} {
			for _, mq := range []int{0, 255} {
				for _, pos := range []int{-1, 0, 1<<29 - 1} {
					for _, mp := range mposs {
						for _, tl := range tlens {
							for _, rm := range refsMates {
								r := baseRec(strings.Repeat("n", nl))
								r.Flags, r.MapQ, r.Pos, r.MatePos, r.TLen, r.RefID, r.MateRefID = fl, mq, pos, mp, tl, rm[0], rm[1]
								g["G1-scalars"] = append(g["G1-scalars"], r)
							}
						}
					}
				}
			}
		}
	}
	// G2: alignment payload
	var cigars [][]uint32
	cigars = append(cigars, nil, []uint32{cig('M', 1)})
	for _, op := range []byte("MIDNSHP=XB") {
		cigars = append(cigars, []uint32{cig(op, 7)})
	}
	many := make([]uint32, 65535)
	for i := range many {
		many[i] = cig('M', 1)
	}
	cigars = append(cigars, many, []uint32{cig('M', 1<<28-1)})
	for ci, cg := range cigars {
		tmpl := baseRec("x")
		tmpl.Cigar = cg
		l4k := seqLenForBody(tmpl, 4096)
		lens := []int{0, 1, 2, 3, l4k - 1, l4k, l4k + 1, 65280 + 7}
		if ci == len(cigars)-2 {
			lens = []int{0, 1, 3} // 65535 ops: the record is 256 KiB already
		}
		for _, l := range lens {
			if l < 0 {
				continue
			}
			for _, q := range []bool{false, true} {
				r := baseRec(name())
				r.Cigar = cg
				r.Seq = seqOf(l)
				r.Qual = nil
				if q {
					r.Qual = qualOf(l)
				}
				g["G2-alignment"] = append(g["G2-alignment"], r)
			}
		}
	}
	// G3: aux
	alpha := auxAlphabet()
	for _, f := range alpha {
		r := baseRec(name())
		r.Aux = []refimpl.AuxField{f}
		g["G3-aux"] = append(g["G3-aux"], r)
	}
	if thorough {
		for _, a := range alpha {
			for _, b := range alpha {
				r := baseRec(name())
				b2 := b
				b2.Tag = "Y" + b.Tag[1:]
				r.Aux = []refimpl.AuxField{a, b2}
				g["G3-aux"] = append(g["G3-aux"], r)
			}
		}
	} else {
		for i, a := range alpha {
			b := alpha[(i*7+3)%len(alpha)]
			b.Tag = "Y" + b.Tag[1:]
			r := baseRec(name())
			r.Aux = []refimpl.AuxField{a, b}
			g["G3-aux"] = append(g["G3-aux"], r)
		}
	}
	// maximal context: every group's first elements combined with a big name, long seq and aux
	for _, f := range alpha[:6] {
		r := baseRec(strings.Repeat("m", 254))
		r.Flags, r.MapQ, r.TLen, r.MateRefID, r.MatePos = 0xffff, 255, math.MaxInt32, 1, 1<<31-2
		r.Seq, r.Qual = seqOf(300), qualOf(300)
		r.Cigar = []uint32{cig('S', 100), cig('M', 200)}
		r.Aux = []refimpl.AuxField{f, {Tag: "ZZ", Type: 'Z', Str: "tail"}}
		g["G4-maximal-context"] = append(g["G4-maximal-context"], r)
	}
	// sequences hitting BGZF block ends: header + first record end exactly at, one before and
	// one after the 65280-byte block size, followed by two small records
	h := recHeader()
	text, _ := h.MarshalText()
	hdrLen := len(refimpl.BAMHeader(string(text), recRefs))
	for _, d := range []int{-1, 0, 1} {
		big := baseRec("big")
		big.Cigar = nil
		l := seqLenForBody(big, 65280-hdrLen-4+d)
		big.Seq, big.Qual = seqOf(l), qualOf(l)
		key := fmt.Sprintf("S-blockend%+d", d)
		g[key] = append(g[key], big, baseRec("s1"), baseRec("s2"))
	}
	return g
}

type c05case struct {
	Group string `json:"group"`
	Index int    `json:"index"`
	WC    int    `json:"wc"`
	RD    int    `json:"rd"`
	Omit  int    `json:"omit"`
}

func describeRec(r *refimpl.Rec) string {
	s := r.Seq
	if len(s) > 20 {
		s = fmt.Sprintf("%s...(%d)", s[:20], len(s))
	}
	cg := refimpl.CigarString(r.Cigar)
	if len(cg) > 30 {
		cg = fmt.Sprintf("%s...(%d ops)", cg[:30], len(r.Cigar))
	}
	nm := r.Name
	if len(nm) > 12 {
		nm = fmt.Sprintf("%s...(%d)", nm[:12], len(nm))
	}
	return fmt.Sprintf("{name %s ref %d pos %d mapq %d flags %#x mate %d:%d tlen %d cigar %s seq %s qual %v aux %+v}", nm, r.RefID, r.Pos, r.MapQ, r.Flags, r.MateRefID, r.MatePos, r.TLen, cg, s, r.Qual != nil, r.Aux)
}

// c05file writes recs with the library and checks bytes and read-back. only>=0 restricts the
// reported comparison to one record (replay).
func c05file(c *Ctx, group string, recs []refimpl.Rec, wc int, rds, omits []int, only int) {
	cas := c05case{Group: group, Index: only, WC: wc}
	var out []byte
	var h *sam.Header
	ok := guardRun(c, "bam:write:"+group, cas, 300*time.Second, func() {
		h = recHeader()
		var buf bytes.Buffer
		w, err := bam.NewWriterLevel(&buf, h, 1, wc)
		if err != nil {
			c.Violate("bam:NewWriter-error", err.Error(), cas)
			return
		}
		for i := range recs {
			sr, err := toSam(&recs[i], h)
			if err != nil {
				c.Violate("bam:NewAux-error:"+group, fmt.Sprintf("building record %d %s: %v", i, describeRec(&recs[i]), err), c05case{Group: group, Index: i, WC: wc})
				return
			}
			if err := w.Write(sr); err != nil {
				c.Violate("bam:Write-error:"+group, fmt.Sprintf("Write of record %d %s: %v", i, describeRec(&recs[i]), err), c05case{Group: group, Index: i, WC: wc})
				return
			}
		}
		if err := w.Close(); err != nil {
			c.Violate("bam:Close-error", err.Error(), cas)
			return
		}
		out = buf.Bytes()
	})
	if !ok || out == nil {
		return
	}
	// (i) bytes vs the independent encoder, bin field masked
	ms, partial, err := refimpl.ParseStream(out)
	if err != nil || partial {
		c.Violate("bam:output-not-bgzf", fmt.Sprintf("group %s: %v partial=%v", group, err, partial), cas)
		return
	}
	got := refimpl.Payloads(ms)
	text, _ := h.MarshalText()
	want := refimpl.BAMHeader(string(text), recRefs)
	off := len(want)
	if len(got) < off || !bytes.Equal(got[:off], want) {
		c.Violate("bam:header-bytes", fmt.Sprintf("group %s: BAM header bytes differ from the reference encoding at %d", group, firstDiff(got, want)), cas)
		return
	}
	for i := range recs {
		ref := refimpl.BAMRecord(&recs[i])
		if off+len(ref) > len(got) {
			c.Violate("bam:record-bytes:short:"+group, fmt.Sprintf("output ends inside record %d %s", i, describeRec(&recs[i])), c05case{Group: group, Index: i, WC: wc})
			return
		}
		g := append([]byte(nil), got[off:off+len(ref)]...)
		g[14], g[15], ref[14], ref[15] = 0, 0, 0, 0
		if !bytes.Equal(g, ref) {
			d := firstDiff(g, ref)
			field := "fixed-fields"
			switch {
			case d < 36:
			case d < 36+len(recs[i].Name)+1:
				field = "name"
			case d < 36+len(recs[i].Name)+1+4*len(recs[i].Cigar):
				field = "cigar"
			case d < 36+len(recs[i].Name)+1+4*len(recs[i].Cigar)+(len(recs[i].Seq)+1)/2:
				field = "seq"
			case d < 36+len(recs[i].Name)+1+4*len(recs[i].Cigar)+(len(recs[i].Seq)+1)/2+len(recs[i].Seq):
				field = "qual"
			default:
				field = "aux"
				if len(recs[i].Aux) > 0 {
					field = fmt.Sprintf("aux-%c", recs[i].Aux[0].Type)
				}
			}
			if only < 0 || only == i {
				c.Violate("bam:record-bytes:"+field+":"+group, fmt.Sprintf("record %d %s: bytes differ from the specification encoding at offset %d of the record (%s): library % x..., reference % x...", i, describeRec(&recs[i]), d, field, clip(g[d:], 12), clip(ref[d:], 12)), c05case{Group: group, Index: i, WC: wc})
			}
			if len(g) != len(ref) {
				return
			}
		}
		off += len(ref)
	}
	if off != len(got) {
		c.Violate("bam:trailing-bytes:"+group, fmt.Sprintf("group %s: %d bytes after the last record", group, len(got)-off), cas)
		return
	}
	// (ii) read back
	for _, rd := range rds {
		for _, omit := range omits {
			rc := c05case{Group: group, WC: wc, RD: rd, Omit: omit, Index: only}
			guardRun(c, "bam:read:"+group, rc, 300*time.Second, func() {
				r, err := bam.NewReader(bytes.NewReader(out), rd)
				if err != nil {
					c.Violate("bam:NewReader-error", err.Error(), rc)
					return
				}
				defer r.Close()
				r.Omit(omit)
				ht, _ := r.Header().MarshalText()
				if !bytes.Equal(ht, text) {
					c.Violate("bam:header-differs", fmt.Sprintf("header read back as %q, written %q", ht, text), rc)
					return
				}
				var held []*sam.Record
				for i := range recs {
					rec, err := r.Read()
					if err != nil {
						c.Violate(fmt.Sprintf("bam:Read-error:omit%d:%s", omit, group), fmt.Sprintf("reading record %d %s (rd=%d omit=%d): %v", i, describeRec(&recs[i]), rd, omit, err), c05case{Group: group, Index: i, WC: wc, RD: rd, Omit: omit})
						return
					}
					held = append(held, rec)
				}
				if _, err := r.Read(); err != io.EOF {
					c.Violate("bam:no-eof:"+group, fmt.Sprintf("after the last record Read returned %v, want io.EOF", err), rc)
					return
				}
				// compare after everything was read: a record must not be changed by later reads
				for i, rec := range held {
					if only >= 0 && only != i {
						continue
					}
					if msg := compareRecord(&recs[i], rec, r.Header(), omit); msg != "" {
						class := strings.SplitN(msg, " ", 2)[0]
						c.Violate(fmt.Sprintf("bam:record-differs:omit%d:%s:%s", omit, class, group), fmt.Sprintf("record %d %s read back (wc=%d rd=%d omit=%d) with %s", i, describeRec(&recs[i]), wc, rd, omit, msg), c05case{Group: group, Index: i, WC: wc, RD: rd, Omit: omit})
						return
					}
				}
			})
		}
	}
}

func clip(b []byte, n int) []byte {
	if len(b) > n {
		return b[:n]
	}
	return b
}

// c05manyRefs: headers with many references (around the parser's initial table size of 1000 and
// well beyond), a record on the first and on the last reference with the mate on the other.
func c05manyRefs(c *Ctx) {
	for _, n := range []int{1, 2, 999, 1000, 1001, 2500, 70000} {
		cas := map[string]int{"references": n}
		guard(c, "bam:many-references", cas, func() {
			var refs []*sam.Reference
			for i := 0; i < n; i++ {
				r, err := sam.NewReference(fmt.Sprintf("c%d", i), "", "", 1000+i, nil, nil)
				if err != nil {
					c.Violate("bam:many-references:build", err.Error(), cas)
					return
				}
				refs = append(refs, r)
			}
			h, err := sam.NewHeader(nil, refs)
			if err != nil {
				c.Violate("bam:many-references:build", err.Error(), cas)
				return
			}
			var buf bytes.Buffer
			w, err := bam.NewWriter(&buf, h, 1)
			if err != nil {
				c.Violate("bam:many-references:writer", err.Error(), cas)
				return
			}
			var want []string
			for k, ri := range []int{0, n - 1} {
				rec, err := sam.NewRecord(fmt.Sprintf("r%d", k), refs[ri], refs[n-1-ri], 5+k, 7, 0, 30, []sam.CigarOp{sam.NewCigarOp(sam.CigarMatch, 4)}, []byte("ACGT"), []byte{1, 2, 3, 4}, nil)
				if err != nil {
					c.Violate("bam:many-references:build", err.Error(), cas)
					return
				}
				if err := w.Write(rec); err != nil {
					c.Violate("bam:many-references:write", err.Error(), cas)
					return
				}
				t, _ := rec.MarshalText()
				want = append(want, string(t))
			}
			w.Close()
			r, err := bam.NewReader(bytes.NewReader(buf.Bytes()), 1)
			if err != nil {
				c.Violate("bam:many-references:NewReader", fmt.Sprintf("%d references: %v", n, err), cas)
				return
			}
			defer r.Close()
			if got := len(r.Header().Refs()); got != n {
				c.Violate("bam:many-references:count", fmt.Sprintf("%d references written, %d read", n, got), cas)
				return
			}
			t0, _ := h.MarshalText()
			t1, _ := r.Header().MarshalText()
			if !bytes.Equal(t0, t1) {
				c.Violate("bam:many-references:header-differs", fmt.Sprintf("%d references: header text differs at byte %d", n, firstDiff(t0, t1)), cas)
				return
			}
			for k := range want {
				rec, err := r.Read()
				if err != nil {
					c.Violate("bam:many-references:Read-error", fmt.Sprintf("%d references: record %d: %v", n, k, err), cas)
					return
				}
				if t, _ := rec.MarshalText(); string(t) != want[k] {
					c.Violate("bam:many-references:record-differs", fmt.Sprintf("%d references: record %d read as %q, written %q", n, k, t, want[k]), cas)
					return
				}
			}
			if _, err := r.Read(); err != io.EOF {
				c.Violate("bam:many-references:no-eof", fmt.Sprintf("%d references: after the records Read returned %v", n, err), cas)
			}
		})
		c.Eval(1)
		c.NontrivialN(1)
	}
}

func c05(c *Ctx) {
	c.Rule = "record space split into groups, each a full product with the others at minimal context (and a maximal-context group): G1 scalars name length {1,2,254} x flags {0,4,13,0xffff} x MAPQ {0,255} x pos {-1,0,2^29-1} x mate pos x tlen {min,0,max} x (ref,mate) in {nil,chr1,chr2}^2; G2 CIGAR {none, 1M, one op of each of the ten codes, 65535 x 1M, 1 x (2^28-1)M} x sequence length {0,1,2,3,L4k-1,L4k,L4k+1 (record body exactly 4096 bytes), 65287} over all 16 base codes x quality {absent,present}; G3 every single aux field from {A, c C s S i I at min/0/max, f incl. +-Inf, Z '' and 'x y', H '' and '1AE3', B of each subtype with 0/1/3 elements} and pairs (thorough: all ordered pairs); sequences whose first record ends exactly at, one before and one after a BGZF block end. Each group is written with bam.Writer (wc 1,2), the decompressed bytes compared with an independent BAM encoder (bin field masked), and read back with rd {1,2} x Omit {None, AuxTags, AllVariableLengthData} comparing every field after ALL records were read (retained records must not change). Also headers with 1, 2, 999, 1000, 1001, 2500 and 70000 references and a record on the first and on the last. Non-trivial: every record (each differs from the base record in at least one field)."
	groups := c05groups(c.Thorough)
	if c.Replay != nil {
		var cas c05case
		if err := json.Unmarshal(c.Replay, &cas); err != nil {
			c.Infra = err.Error()
			return
		}
		rd, omit := cas.RD, cas.Omit
		if rd == 0 {
			rd = 1
		}
		c05file(c, cas.Group, groups[cas.Group], cas.WC, []int{rd}, []int{omit}, cas.Index)
		return
	}
	var names []string
	for k := range groups {
		names = append(names, k)
	}
	var total int64
	type job struct {
		g  string
		wc int
	}
	var jobs []job
	for _, k := range names {
		for _, wc := range []int{1, 2} {
			jobs = append(jobs, job{k, wc})
		}
		total += int64(len(groups[k]))
	}
	parallel(len(jobs), func(i int) {
		j := jobs[i]
		c05file(c, j.g, groups[j.g], j.wc, []int{1, 2}, []int{bam.None, bam.AuxTags, bam.AllVariableLengthData}, -1)
	})
	c.Eval(total * 2 * 6)
	c.NontrivialN(total)
	for _, k := range names {
		c.AddExtra("records "+k, int64(len(groups[k])))
	}
	c05manyRefs(c)
	r := groups["G3-aux"][5]
	c.Sample(map[string]string{"group": "G3-aux", "record": describeRec(&r)})
	r = groups["G2-alignment"][9]
	c.Sample(map[string]string{"group": "G2-alignment", "record": describeRec(&r)})
}
