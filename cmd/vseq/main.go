// vseq runs the sequential (engine E2/E3) parts of the checks against the unmodified library in
// /repo (built with -tags verif for the add-only hooks).
package main

import (
	"encoding/json"
	"flag"
	"fmt"
	"os"
	"runtime"
	"sync"
	"sync/atomic"

	"verif/ev"
)

// Ctx is what a part gets.
type Ctx struct {
	*ev.Part
	Tier     string
	Seed     int
	Thorough bool
	Replay   json.RawMessage // non-nil: re-execute exactly this case and report
}

var parts = map[string]func(*Ctx){}

func register(prop, part string, f func(*Ctx)) { parts[prop+"/"+part] = f }

// parallel runs f(i) for i in [0,n) on all cores.
func parallel(n int, f func(i int)) {
	w := runtime.GOMAXPROCS(0)
	if w > n {
		w = n
	}
	var next int64 = -1
	var wg sync.WaitGroup
	for k := 0; k < w; k++ {
		wg.Add(1)
		go func() {
			defer wg.Done()
			for {
				i := int(atomic.AddInt64(&next, 1))
				if i >= n {
					return
				}
				f(i)
			}
		}()
	}
	wg.Wait()
}

// guard runs f and converts a panic into a violation with a signature naming the panic site.
func guard(c *Ctx, sigPrefix string, cas interface{}, f func()) (ok bool) {
	defer func() {
		if r := recover(); r != nil {
			site, stack := panicSite()
			ok = false
			if fmt.Sprint(r) == "horizon exceeded: operation does not terminate" {
				c.Violate(sigPrefix+":livelock:"+site, fmt.Sprintf("%v (more than the horizon of calls on the underlying reader/cache inside one history)\n%s", r, stack), cas)
				return
			}
			c.Violate(sigPrefix+":panic:"+site, fmt.Sprintf("panic: %v\n%s", r, stack), cas)
			ok = false
		}
	}()
	f()
	return true
}

func main() {
	prop := flag.String("prop", "", "property id")
	part := flag.String("part", "", "part name")
	tier := flag.String("tier", "quick", "quick|thorough")
	seed := flag.Int("seed", 0, "seed (only permutes work order)")
	out := flag.String("out", "", "part result file")
	replay := flag.String("replay", "", "replay file")
	worker := flag.String("worker", "", "internal: worker mode payload")
	flag.Parse()
	if *worker != "" {
		runWorker(*worker)
		return
	}
	f, ok := parts[*prop+"/"+*part]
	if !ok {
		fmt.Fprintf(os.Stderr, "vseq: no part %s/%s\n", *prop, *part)
		os.Exit(2)
	}
	c := &Ctx{Part: ev.NewPart(*prop, *part, *tier), Tier: *tier, Seed: *seed, Thorough: *tier == "thorough"}
	if *replay != "" {
		b, err := os.ReadFile(*replay)
		if err != nil {
			fmt.Fprintln(os.Stderr, err)
			os.Exit(2)
		}
		var rf struct {
			Sig  string          `json:"sig"`
			Case json.RawMessage `json:"case"`
		}
		if err := json.Unmarshal(b, &rf); err != nil {
			fmt.Fprintln(os.Stderr, err)
			os.Exit(2)
		}
		c.Replay = rf.Case
		f(c)
		if c.NumViolations() > 0 {
			for _, v := range c.Violations {
				fmt.Printf("replay reproduces: %s\n  %s\n", v.Sig, v.Msg)
			}
			fmt.Printf("VIOLATION property=%s replay=%s\n", *prop, *replay)
			os.Exit(1)
		}
		fmt.Println("replay: case passes on this tree")
		return
	}
	f(c)
	if err := c.Write(*out); err != nil {
		fmt.Fprintln(os.Stderr, err)
		os.Exit(2)
	}
}
