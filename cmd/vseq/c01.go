package main

import (
	"bytes"
	"compress/gzip"
	"encoding/json"
	"fmt"
	"io"
	"runtime"
	"strings"
	"sync"
	"sync/atomic"
	"time"

	"github.com/biogo/hts/bgzf"

	"verif/refimpl"
)

// C01 (scripts x configurations, default schedule) and C08 (framing) on the real, uninstrumented
// library. The schedule dimension is explored separately by the vconc parts.

func init() {
	register("C01", "scripts", c01scripts)
	register("C08", "framing", c08framing)
}

const BS = 65280

type sop struct {
	Op string `json:"op"` // W F A
	N  int    `json:"n,omitempty"`
}

func (o sop) String() string {
	if o.Op == "W" {
		return fmt.Sprintf("W%d", o.N)
	}
	return o.Op
}

func sopsString(s []sop) string {
	var p []string
	for _, o := range s {
		p = append(p, o.String())
	}
	return strings.Join(p, " ")
}

var writeLens = []int{0, 1, 2, BS - 1, BS, BS + 1, 2 * BS, 2*BS + 3}

func scriptAlphabet() []sop {
	var a []sop
	for _, n := range writeLens {
		a = append(a, sop{Op: "W", N: n})
	}
	return append(a, sop{Op: "F"}, sop{Op: "A"})
}

// allScripts enumerates scripts of 1..maxLen operations, shortest first.
func allScripts(maxLen int) [][]sop {
	alpha := scriptAlphabet()
	var out [][]sop
	level := [][]sop{nil}
	for l := 1; l <= maxLen; l++ {
		var next [][]sop
		for _, s := range level {
			for _, o := range alpha {
				next = append(next, append(append([]sop(nil), s...), o))
			}
		}
		out = append(out, next...)
		level = next
	}
	return out
}

// payload is position coded; rand selects incompressible content.
func payload(rand bool, off, n int) []byte {
	b := make([]byte, n)
	if !rand {
		for i := range b {
			p := off + i
			b[i] = byte(p>>((uint(p)&3)*8)) ^ byte(p*7)
		}
		// make it cheap to compress but position dependent: every 4-byte word holds its offset
		for i := 0; i+4 <= n; i += 4 {
			p := uint32(off + i)
			b[i], b[i+1], b[i+2], b[i+3] = byte(p), byte(p>>8), byte(p>>16), byte(p>>24)
		}
		return b
	}
	for i := range b {
		x := uint64(off+i)/8*0x9e3779b97f4a7c15 + 0x1234567
		x ^= x >> 29
		x *= 0xbf58476d1ce4e5b9
		x ^= x >> 32
		b[i] = byte(x >> (8 * uint((off+i)%8)))
	}
	return b
}

type wcase struct {
	Script string      `json:"script"`
	Ops    []sop       `json:"ops"`
	Rand   bool        `json:"rand"`
	Level  int         `json:"level"`
	WC     int         `json:"wc"`
	RD     int         `json:"rd,omitempty"`
	Plan   string      `json:"plan,omitempty"`
	Hdr    *hdrSetting `json:"hdr,omitempty"`
	Close  bool        `json:"close"`
}

type hdrSetting struct {
	Name    string `json:"name,omitempty"`
	NameLen int    `json:"name_len,omitempty"` // generated name of this length (overrides Name)
	Comment string `json:"comment,omitempty"`
	Extra   []byte `json:"extra,omitempty"`
	ModTime int64  `json:"modtime,omitempty"`
	OS      int    `json:"os"`
}

type wresult struct {
	out      []byte
	written  []byte
	closeErr error
	opErr    error
	timedOut bool
}

// guardRun runs f in its own goroutine under a watchdog. A panic inside f (in that goroutine)
// becomes a violation naming the panic site; a stall of the given length on operations that
// take milliseconds is reported as a hang (the goroutine is abandoned).
func guardRun(c *Ctx, sigPrefix string, cas interface{}, limit time.Duration, f func()) (ok bool) {
	type pinfo struct {
		val         interface{}
		site, stack string
	}
	done := make(chan *pinfo, 1)
	go func() {
		defer func() {
			if r := recover(); r != nil {
				site, stack := panicSite()
				done <- &pinfo{r, site, stack}
				return
			}
			done <- nil
		}()
		f()
	}()
	select {
	case p := <-done:
		if p != nil {
			c.Violate(sigPrefix+":panic:"+p.site, fmt.Sprintf("panic: %v\n%s", p.val, p.stack), cas)
			return false
		}
		return true
	case <-time.After(limit):
		c.Violate(sigPrefix+":no-return-within-"+limit.String(), "the call sequence did not return within "+limit.String(), cas)
		return false
	}
}

func runWriter(c *Ctx, cas wcase) (res wresult, ok bool) {
	var buf bytes.Buffer
	ok = guardRun(c, "writer", cas, 120*time.Second, func() {
		{
			w, err := bgzf.NewWriterLevel(&buf, cas.Level, cas.WC)
			if err != nil {
				res.opErr = err
				return
			}
			if h := cas.Hdr; h != nil {
				w.Name, w.Comment, w.Extra, w.OS = h.Name, h.Comment, h.Extra, byte(h.OS)
				if h.NameLen > 0 {
					w.Name = strings.Repeat("n", h.NameLen)
				}
				if h.ModTime != 0 {
					w.ModTime = time.Unix(h.ModTime, 0)
				}
			}
			off := 0
			for _, o := range cas.Ops {
				switch o.Op {
				case "W":
					p := payload(cas.Rand, off, o.N)
					n, err := w.Write(p)
					if err != nil && res.opErr == nil {
						res.opErr = fmt.Errorf("Write: %v", err)
					}
					if n != o.N && err == nil {
						res.opErr = fmt.Errorf("Write(%d) returned %d, nil", o.N, n)
					}
					res.written = append(res.written, p...)
					off += o.N
				case "F":
					if err := w.Flush(); err != nil && res.opErr == nil {
						res.opErr = fmt.Errorf("Flush: %v", err)
					}
				case "A":
					if err := w.Wait(); err != nil && res.opErr == nil {
						res.opErr = fmt.Errorf("Wait: %v", err)
					}
				}
			}
			if cas.Close {
				res.closeErr = w.Close()
			} else {
				// observe the stream of an unclosed writer: everything flushed and waited for
				w.Flush()
				w.Wait()
			}
		}
	})
	if !ok {
		return res, false
	}
	res.out = buf.Bytes()
	return res, ok
}

var readPlans = []string{"readall", "readbyte", "cyclic", "alt"}

// readBack reads data with the given plan and returns the bytes and the final error.
func readBack(c *Ctx, cas wcase, data []byte) (got []byte, err error, ok bool) {
	ok = guardRun(c, "reader", cas, 120*time.Second, func() {
		{
			r, e := bgzf.NewReader(bytes.NewReader(data), cas.RD)
			if e != nil {
				err = fmt.Errorf("NewReader: %v", e)
				return
			}
			defer r.Close()
			switch cas.Plan {
			case "readall":
				got, err = io.ReadAll(r)
				if err == nil {
					err = io.EOF
				}
			case "readbyte":
				for {
					b, e := r.ReadByte()
					if e != nil {
						err = e
						return
					}
					got = append(got, b)
				}
			case "cyclic":
				sizes := []int{1, 7, BS - 1, BS, BS + 1, 3 * BS}
				for i := 0; ; i++ {
					buf := make([]byte, sizes[i%len(sizes)])
					n, e := r.Read(buf)
					got = append(got, buf[:n]...)
					if e != nil {
						err = e
						return
					}
					if n != len(buf) {
						err = fmt.Errorf("short read (%d of %d) without error", n, len(buf))
						return
					}
				}
			case "alt":
				for i := 0; ; i++ {
					if i%2 == 0 {
						buf := make([]byte, 5)
						n, e := r.Read(buf)
						got = append(got, buf[:n]...)
						if e != nil {
							err = e
							return
						}
						if n != 5 {
							err = fmt.Errorf("short read (%d of 5) without error", n)
							return
						}
					} else {
						b, e := r.ReadByte()
						if e != nil {
							err = e
							return
						}
						got = append(got, b)
					}
				}
			}
		}
	})
	return got, err, ok
}

func firstDiff(a, b []byte) int {
	n := len(a)
	if len(b) < n {
		n = len(b)
	}
	for i := 0; i < n; i++ {
		if a[i] != b[i] {
			return i
		}
	}
	return n
}

func lenClass(n int) string {
	switch {
	case n == 0:
		return "0"
	case n < BS-1:
		return "small"
	case n <= BS+1:
		return "aroundBS"
	}
	return "multi"
}

func c01one(c *Ctx, cas wcase, rds []int) {
	cas.Close = true
	res, ok := runWriter(c, cas)
	if !ok {
		return
	}
	c.Eval(1)
	if res.opErr != nil || res.closeErr != nil {
		c.Violate("writer:unexpected-error", fmt.Sprintf("script %s level %d wc %d: %v / Close: %v", cas.Script, cas.Level, cas.WC, res.opErr, res.closeErr), cas)
		return
	}
	for _, rd := range rds {
		for _, plan := range readPlans {
			rc := cas
			rc.RD, rc.Plan = rd, plan
			got, err, ok := readBack(c, rc, res.out)
			c.Eval(1)
			if !ok {
				continue
			}
			if !bytes.Equal(got, res.written) {
				c.Violate(fmt.Sprintf("roundtrip:wrong-data:%s", plan), fmt.Sprintf("script %s level %d wc %d rd %d plan %s: read %d bytes, wrote %d; first difference at %d", cas.Script, cas.Level, cas.WC, rd, plan, len(got), len(res.written), firstDiff(got, res.written)), rc)
				continue
			}
			if err != io.EOF {
				c.Violate(fmt.Sprintf("roundtrip:no-eof:%s", plan), fmt.Sprintf("script %s level %d wc %d rd %d plan %s: data complete but final error is %v, want io.EOF", cas.Script, cas.Level, cas.WC, rd, plan, err), rc)
			}
		}
	}
	if len(res.written) > 0 {
		c.Nontrivial(cas.Script, cas.Rand, cas.Level, cas.WC)
	}
}

func c01scripts(c *Ctx) {
	c.Rule = "scripts over {W(len in 0,1,2,BS-1,BS,BS+1,2BS,2BS+3), Flush, Wait} of length <=2 (quick) / <=3 (thorough, at the corner configurations) followed by Close x content {compressible position-coded, incompressible} x level {-1,0,1,9} (thorough -1..9) x wc {0,1,2,3} x rd {0,1,2,3} x read plan {ReadAll, ReadByte only, cyclic buffer sizes 1/7/BS-1/BS/BS+1/3BS, alternating Read(5)/ReadByte}; default (free-running) schedule on the uninstrumented library; oracle: bytes read == bytes written, then io.EOF; no error, panic or stall; plus a full incompressible block with a gzip Name swept across the 64 KiB member limit at levels 0, 1, -1 (the writer refuses, or the output reads back exactly; the largest member read back is reported). Non-trivial: distinct (script, content, level, wc) writing at least one byte."
	c.Assume("the schedule dimension is covered by the C01 'sched' part; here goroutines run free")
	if c.Replay != nil {
		var cas wcase
		if err := json.Unmarshal(c.Replay, &cas); err != nil {
			c.Infra = err.Error()
			return
		}
		rds := []int{cas.RD}
		c01one(c, cas, rds)
		return
	}
	runtime.GOMAXPROCS(16)
	levels := []int{-1, 0, 1, 9}
	if c.Thorough {
		levels = []int{-1, 0, 1, 2, 3, 4, 5, 6, 7, 8, 9}
	}
	var cases []wcase
	for _, s := range allScripts(2) {
		for _, rnd := range []bool{false, true} {
			for _, lv := range levels {
				for _, wc := range []int{0, 1, 2, 3} {
					cases = append(cases, wcase{Script: sopsString(s), Ops: s, Rand: rnd, Level: lv, WC: wc})
				}
			}
		}
	}
	if c.Thorough {
		for _, s := range allScripts(3) {
			if len(s) < 3 {
				continue
			}
			for _, rnd := range []bool{false, true} {
				for _, wc := range []int{1, 3} {
					cases = append(cases, wcase{Script: sopsString(s), Ops: s, Rand: rnd, Level: -1, WC: wc})
				}
			}
		}
	}
	var mu sync.Mutex
	sampled := 0
	parallel(len(cases), func(i int) {
		cas := cases[i]
		rds := []int{0, 1, 2, 3}
		if len(cas.Ops) == 3 {
			rds = []int{1, 3}
		}
		c01one(c, cas, rds)
		mu.Lock()
		if sampled < 4 && i%997 == 0 {
			sampled++
			c.Sample(cas)
		}
		mu.Unlock()
	})
	c.AddExtra("writer_runs", int64(len(cases)))
	// members at the size limit: a full incompressible block with a gzip Name whose length is
	// swept across the point where the member no longer fits in 64 KiB. Either the writer
	// refuses (an error, nothing to read back) or what it wrote reads back exactly.
	var limit []wcase
	for _, lv := range []int{0, 1, -1} {
		for nl := 150; nl <= 300; nl++ {
			if !c.Thorough && (nl < 200 || nl > 240) {
				continue
			}
			limit = append(limit, wcase{Script: "W65280", Ops: []sop{{Op: "W", N: BS}}, Rand: true, Level: lv, WC: 1, Close: true, Hdr: &hdrSetting{NameLen: nl, OS: 255}})
		}
	}
	var maxMember int64
	parallel(len(limit), func(i int) {
		cas := limit[i]
		res, ok := runWriter(c, cas)
		c.Eval(1)
		if !ok || res.opErr != nil || res.closeErr != nil {
			return
		}
		if ms, _, err := refimpl.ParseStream(res.out); err == nil {
			for _, m := range ms {
				for {
					old := atomic.LoadInt64(&maxMember)
					if int64(m.Size) <= old || atomic.CompareAndSwapInt64(&maxMember, old, int64(m.Size)) {
						break
					}
				}
			}
		}
		for _, rd := range []int{1, 2} {
			rc := cas
			rc.RD, rc.Plan = rd, "readall"
			got, err, ok := readBack(c, rc, res.out)
			c.Eval(1)
			if !ok {
				continue
			}
			if !bytes.Equal(got, res.written) || err != io.EOF {
				c.Violate("roundtrip:member-at-size-limit", fmt.Sprintf("level %d, Name of %d bytes: the writer reported no error but reading back gives %d of %d bytes, first difference at %d, final error %v", cas.Level, cas.Hdr.NameLen, len(got), len(res.written), firstDiff(got, res.written), err), rc)
				return
			}
		}
		c.Nontrivial("limit", cas.Level, cas.Hdr.NameLen)
	})
	c.AddExtra("size_limit_runs", int64(len(limit)))
	c.AddExtra("largest_member_written_and_read_back", maxMember)
}

// ---------------------------------------------------------------------------------------------
// C08: framing conformance

func c08check(c *Ctx, cas wcase, res wresult) {
	out := res.out
	ms, partial, err := refimpl.ParseStream(out)
	if err != nil {
		c.Violate("framing:not-bgzf", fmt.Sprintf("script %s (%+v): output is not a sequence of BGZF members: %v", cas.Script, cas.Hdr, err), cas)
		return
	}
	if partial {
		c.Violate("framing:partial-member", fmt.Sprintf("script %s: output ends inside a member", cas.Script), cas)
		return
	}
	for _, m := range ms {
		if m.Size > refimpl.MaxMember || len(m.Payload) > refimpl.MaxPayload {
			c.Violate("framing:oversize", fmt.Sprintf("script %s: member of %d bytes with %d payload bytes", cas.Script, m.Size, len(m.Payload)), cas)
			return
		}
	}
	if got := refimpl.Payloads(ms); !bytes.Equal(got, res.written) && res.closeErr == nil && res.opErr == nil {
		c.Violate("framing:payload-mismatch", fmt.Sprintf("script %s: members decode to %d bytes, %d were written (first difference %d)", cas.Script, len(got), len(res.written), firstDiff(got, res.written)), cas)
		return
	}
	// a standard multi-member gzip decoder
	if res.closeErr == nil && res.opErr == nil {
		zr, err := gzip.NewReader(bytes.NewReader(out))
		var all []byte
		if err == nil {
			all, err = io.ReadAll(zr)
		}
		if len(out) == 0 {
			err, all = nil, nil
		}
		if err != nil || !bytes.Equal(all, res.written) {
			c.Violate("framing:gzip-incompatible", fmt.Sprintf("script %s: compress/gzip multistream decode: err=%v, %d bytes, want %d", cas.Script, err, len(all), len(res.written)), cas)
			return
		}
	}
	// header settings are carried by every member
	if h := cas.Hdr; h != nil && len(ms) > 0 {
		name := h.Name
		if h.NameLen > 0 {
			name = strings.Repeat("n", h.NameLen)
		}
		for i, m := range ms[:len(ms)-1] {
			if m.Name != name || m.Comment != h.Comment || int(m.OS) != h.OS || (h.ModTime != 0 && int64(m.MTIME) != h.ModTime) {
				c.Violate("framing:header-fields", fmt.Sprintf("script %s: member %d carries name %q comment %q os %d mtime %d, writer was set to %+v", cas.Script, i, m.Name, m.Comment, m.OS, m.MTIME, *h), cas)
				return
			}
		}
	}
	// EOF marker iff closed without error; HasEOF agrees
	marker := refimpl.HasMarker(out)
	hasEOF, herr := bgzf.HasEOF(bytes.NewReader(out))
	if len(out) < 28 {
		hasEOF, herr = false, nil
	}
	closedOK := cas.Close && res.closeErr == nil
	if marker != closedOK {
		c.Violate(fmt.Sprintf("framing:marker-iff-closed:marker=%v,closed-ok=%v", marker, closedOK), fmt.Sprintf("script %s close=%v closeErr=%v opErr=%v: stream ends with the EOF marker: %v", cas.Script, cas.Close, res.closeErr, res.opErr, marker), cas)
		return
	}
	if herr != nil || hasEOF != marker {
		c.Violate("framing:HasEOF", fmt.Sprintf("script %s: HasEOF=%v,%v but the stream ends with the marker: %v", cas.Script, hasEOF, herr, marker), cas)
	}
}

func c08framing(c *Ctx) {
	c.Rule = "C01's scripts (length <=2; thorough <=3 at corners) x content x level x wc {0,1,2,4}, closed and unclosed (Flush+Wait), plus header settings Name {'',n} x Comment {'',c} x Extra {nil, XY subfield, subfield whose data contains BC\\x02\\x00} x ModTime {zero, 1e8, 148290 (bytes spell BC\\x02\\x00)} x OS {255,3} on 5 scripts, ModTime x level {-1,1,9} x OS {0,3,255} spelling BC\\x02\\x00 across MTIME/XFL/OS at every alignment, plus Name lengths around the 64 KiB member limit with a full incompressible block. Oracle: independent RFC1952/BGZF parser (FEXTRA, BC subfield = member length-1, member <= 65536, payload <= 65280, CRC32, ISIZE, contiguous), compress/gzip multistream decode == written data, EOF marker present iff Close returned nil and HasEOF agrees, bytes identical for all wc. Non-trivial: distinct outputs with at least one data member."
	if c.Replay != nil {
		var cas wcase
		if err := json.Unmarshal(c.Replay, &cas); err != nil {
			c.Infra = err.Error()
			return
		}
		res, ok := runWriter(c, cas)
		if ok {
			c08check(c, cas, res)
		}
		return
	}
	runtime.GOMAXPROCS(16)
	levels := []int{-1, 0, 1, 9}
	if c.Thorough {
		levels = []int{-1, 0, 1, 2, 3, 4, 5, 6, 7, 8, 9}
	}
	wcs := []int{0, 1, 2, 4}
	type group struct{ cases []wcase } // same stream expected for every wc
	var groups []group
	scripts := allScripts(2)
	if c.Thorough {
		for _, s := range allScripts(3) {
			if len(s) == 3 && (s[0].Op != "W" || s[0].N >= BS-1 || s[0].N == 1) {
				scripts = append(scripts, s)
			}
		}
	}
	for _, s := range scripts {
		for _, rnd := range []bool{false, true} {
			for _, lv := range levels {
				if len(s) == 3 && lv != -1 {
					continue
				}
				for _, cl := range []bool{true, false} {
					var g group
					for _, wc := range wcs {
						g.cases = append(g.cases, wcase{Script: sopsString(s), Ops: s, Rand: rnd, Level: lv, WC: wc, Close: cl})
					}
					groups = append(groups, g)
				}
			}
		}
	}
	// header settings
	hs := [][]sop{{{Op: "W", N: 1}}, {{Op: "W", N: 2}, {Op: "F"}, {Op: "W", N: 1}}, {{Op: "W", N: BS}}, {{Op: "W", N: BS + 1}}, {}}
	extras := [][]byte{nil, []byte("XY\x01\x00z"), []byte("XY\x04\x00BC\x02\x00")}
	for _, s := range hs {
		for _, name := range []string{"", "n"} {
			for _, com := range []string{"", "c"} {
				for _, ex := range extras {
					for _, mt := range []int64{0, 100000000, 148290} {
						for _, os := range []int{255, 3} {
							var g group
							for _, wc := range []int{1, 2} {
								g.cases = append(g.cases, wcase{Script: sopsString(s), Ops: s, Rand: len(s) == 1 && s[0].N == BS, Level: -1, WC: wc, Close: true,
									Hdr: &hdrSetting{Name: name, Comment: com, Extra: ex, ModTime: mt, OS: os}})
							}
							groups = append(groups, g)
						}
					}
				}
			}
		}
	}
	// ModTime / compression-level flag / OS values that spell (a prefix of) the BGZF subfield
	// header "BC\x02\x00" across the fixed gzip header at every alignment: 'B' at header offset
	// 4 (all inside MTIME), 5 (XFL=0 completes it), 6 (XFL=2 from level 9 and OS=0 complete it), 7
	for _, s := range hs[:2] {
		for _, mt := range []int64{0x00024342, 0x02434200, 0x02434211, 0x43420000, 0x43421100, 0x42000000} {
			for _, lv := range []int{-1, 1, 9} {
				for _, os := range []int{0, 3, 255} {
					var g group
					for _, wc := range []int{1, 2} {
						g.cases = append(g.cases, wcase{Script: sopsString(s), Ops: s, Level: lv, WC: wc, Close: true, Hdr: &hdrSetting{ModTime: mt, OS: os}})
					}
					groups = append(groups, g)
				}
			}
		}
	}
	// Name lengths around the member size limit, full incompressible block
	for _, lv := range []int{0, 1, -1} {
		for nl := 150; nl <= 300; nl++ {
			if !c.Thorough && (nl < 200 || nl > 240) {
				continue
			}
			g := group{cases: []wcase{{Script: "W65280", Ops: []sop{{Op: "W", N: BS}}, Rand: true, Level: lv, WC: 1, Close: true, Hdr: &hdrSetting{NameLen: nl, OS: 255}}}}
			groups = append(groups, g)
			// the same with the block compressed by Close itself (one byte short of a full block)
			g = group{cases: []wcase{{Script: "W65279", Ops: []sop{{Op: "W", N: BS - 1}}, Rand: true, Level: lv, WC: 1, Close: true, Hdr: &hdrSetting{NameLen: nl + 1, OS: 255}}}}
			groups = append(groups, g)
		}
	}
	parallel(len(groups), func(i int) {
		g := groups[i]
		var ref []byte
		for j, cas := range g.cases {
			res, ok := runWriter(c, cas)
			c.Eval(1)
			if !ok {
				return
			}
			if cas.Hdr == nil && (res.opErr != nil || res.closeErr != nil) {
				c.Violate("writer:unexpected-error", fmt.Sprintf("script %s level %d wc %d: %v / Close: %v", cas.Script, cas.Level, cas.WC, res.opErr, res.closeErr), cas)
				return
			}
			c08check(c, cas, res)
			if j == 0 {
				ref = res.out
				if len(res.written) > 0 {
					c.Nontrivial(res.out)
				}
			} else if !bytes.Equal(ref, res.out) {
				c.Violate("framing:bytes-depend-on-wc", fmt.Sprintf("script %s level %d: output with wc=%d differs from wc=%d at offset %d", cas.Script, cas.Level, cas.WC, g.cases[0].WC, firstDiff(ref, res.out)), cas)
				return
			}
		}
		if i%1500 == 0 {
			c.Sample(g.cases[0])
		}
	})
	c.AddExtra("groups", int64(len(groups)))
}
