package main

import (
	"bytes"
	"encoding/json"
	"fmt"
	"io"
	"strings"

	"github.com/biogo/hts/fai"
)

func init() { register("C19", "fai", c19) }

type c19case struct {
	Lens  []int  `json:"lens"`  // sequence lengths
	W     int    `json:"w"`     // line width in bases
	CRLF  bool   `json:"crlf"`  // line terminator
	Final bool   `json:"final"` // final newline present
	Desc  bool   `json:"desc"`  // description after the name
	Blank bool   `json:"blank"` // blank line between records
	Name  string `json:"name,omitempty"`
	Start int    `json:"start,omitempty"`
	End   int    `json:"end,omitempty"`
	Buf   int    `json:"buf,omitempty"`
}

type fastaRec struct {
	name        string
	seq         []byte
	start       int64 // offset of the first base
	bases, byts int   // layout of full lines
	multi       bool  // layout unambiguous (>= 2 lines, or a terminated single line)
}

// buildFasta writes the file described by cas and returns what a correct index holds.
func buildFasta(cas c19case) ([]byte, []fastaRec) {
	term := "\n"
	if cas.CRLF {
		term = "\r\n"
	}
	var buf bytes.Buffer
	var recs []fastaRec
	for i, l := range cas.Lens {
		r := fastaRec{name: fmt.Sprintf("s%d", i)}
		if i >= 1 && i == len(cas.Lens)-1 {
			r.name = "#" + r.name // any non-blank character may start a name; '#' and '>' are special elsewhere
		}
		buf.WriteString(">" + r.name)
		if cas.Desc {
			buf.WriteString(" d")
		}
		buf.WriteString(term)
		r.start = int64(buf.Len())
		r.seq = make([]byte, l)
		for j := range r.seq {
			r.seq[j] = "ACGT"[(j+i)%4]
		}
		lines := 0
		for p := 0; p < l; p += cas.W {
			e := p + cas.W
			if e > l {
				e = l
			}
			buf.Write(r.seq[p:e])
			lines++
			last := i == len(cas.Lens)-1 && e == l
			if !last || cas.Final {
				buf.WriteString(term)
			}
		}
		first := cas.W
		if l < first {
			first = l
		}
		r.bases = first
		r.byts = first + len(term)
		lastRec := i == len(cas.Lens)-1
		r.multi = lines >= 2 || !lastRec || cas.Final
		if cas.Blank && !lastRec {
			buf.WriteString(term)
		}
		recs = append(recs, r)
	}
	return buf.Bytes(), recs
}

func c19one(c *Ctx, cas c19case, all bool) {
	data, recs := buildFasta(cas)
	cls := fmt.Sprintf("crlf=%v,final=%v,blank=%v", cas.CRLF, cas.Final, cas.Blank)
	guard(c, "fai", cas, func() {
		idx, err := fai.NewIndex(bytes.NewReader(data))
		if err != nil {
			c.Violate("NewIndex:error:"+cls, fmt.Sprintf("NewIndex on %q: %v", data, err), cas)
			return
		}
		if len(idx) != len(recs) {
			c.Violate("NewIndex:count:"+cls, fmt.Sprintf("NewIndex on %q: %d records, want %d", data, len(idx), len(recs)), cas)
			return
		}
		for _, r := range recs {
			got, ok := idx[r.name]
			if !ok || got.Length != len(r.seq) || got.Start != r.start || (r.multi && (got.BasesPerLine != r.bases || got.BytesPerLine != r.byts)) {
				c.Violate("NewIndex:record:"+cls, fmt.Sprintf("NewIndex on %q: record %s = %+v, true layout: length %d start %d bases/line %d bytes/line %d", data, r.name, got, len(r.seq), r.start, r.bases, r.byts), cas)
				return
			}
		}
		// index serialisation
		var w1, w2 bytes.Buffer
		if err := fai.WriteTo(&w1, idx); err != nil {
			c.Violate("WriteTo:error", err.Error(), cas)
			return
		}
		idx2, err := fai.ReadFrom(bytes.NewReader(w1.Bytes()))
		if err != nil {
			c.Violate("ReadFrom:error", fmt.Sprintf("ReadFrom(%q): %v", w1.Bytes(), err), cas)
			return
		}
		fai.WriteTo(&w2, idx2)
		if len(idx2) != len(idx) || !bytes.Equal(w1.Bytes(), w2.Bytes()) {
			c.Violate("index-roundtrip", fmt.Sprintf("index %q re-read and re-written as %q", w1.Bytes(), w2.Bytes()), cas)
			return
		}
		for k, v := range idx {
			if idx2[k] != v {
				c.Violate("index-roundtrip", fmt.Sprintf("record %s: %+v re-read as %+v", k, v, idx2[k]), cas)
				return
			}
		}
		readAll := func(s *fai.Seq, bufN, want int) ([]byte, string) {
			var out []byte
			buf := make([]byte, bufN)
			for it := 0; it < 4*want+16; it++ {
				n, err := s.Read(buf)
				out = append(out, buf[:n]...)
				if err == io.EOF {
					return out, ""
				}
				if err != nil {
					return out, err.Error()
				}
			}
			return out, "no io.EOF within the horizon (no progress)"
		}
		for ri, src := range []io.ReaderAt{bytes.NewReader(data), eofReaderAt(data)} {
			f := fai.NewFile(src, idx2)
			if ri == 1 {
				cls += ",source-returns-EOF-with-the-last-bytes"
			}
			for _, r := range recs {
				if !all && r.name != cas.Name {
					continue
				}
				for _, bufN := range []int{1, 2, 3, 7, 64} {
					if !all && bufN != cas.Buf {
						continue
					}
					s, err := f.Seq(r.name)
					if err != nil {
						c.Violate("Seq:error", err.Error(), cas)
						return
					}
					got, e := readAll(s, bufN, len(r.seq))
					c.Eval(1)
					if e != "" || !bytes.Equal(got, r.seq) {
						cc := cas
						cc.Name, cc.Start, cc.End, cc.Buf = r.name, 0, len(r.seq), bufN
						c.Violate("Seq:wrong:"+cls, fmt.Sprintf("file %q: Seq(%s) with %d-byte buffer returned %q (%s), want %q", data, r.name, bufN, got, e, r.seq), cc)
						return
					}
					for st := 0; st <= len(r.seq); st++ {
						for en := st; en <= len(r.seq); en++ {
							if !all && (st != cas.Start || en != cas.End) {
								continue
							}
							s, err := f.SeqRange(r.name, st, en)
							if err != nil {
								c.Violate("SeqRange:error", fmt.Sprintf("SeqRange(%s,%d,%d): %v", r.name, st, en, err), cas)
								return
							}
							got, e := readAll(s, bufN, en-st)
							c.Eval(1)
							if e != "" || !bytes.Equal(got, r.seq[st:en]) {
								cc := cas
								cc.Name, cc.Start, cc.End, cc.Buf = r.name, st, en, bufN
								c.Violate("SeqRange:wrong:"+cls, fmt.Sprintf("file %q: SeqRange(%s,%d,%d) with %d-byte buffer returned %q (%s), want %q", data, r.name, st, en, bufN, got, e, r.seq[st:en]), cc)
								return
							}
						}
					}
				}
			}
		}
	})
}

// eofReaderAt is a conforming io.ReaderAt that reports io.EOF together with the last bytes of
// the data (as the io.ReaderAt contract allows), not on a later call.
type eofReaderAt []byte

func (d eofReaderAt) ReadAt(p []byte, off int64) (int, error) {
	if off < 0 || off > int64(len(d)) {
		return 0, io.EOF
	}
	n := copy(p, d[off:])
	if off+int64(n) >= int64(len(d)) {
		return n, io.EOF
	}
	return n, nil
}

func c19(c *Ctx) {
	c.Rule = "FASTA files: N in {1,2,3} records x line width W in 1..4 (thorough: 1..8 and 61, and N=4 for W<=4) x sequence lengths (N=1: every length 1..3W (W=61: within one base of a line end); N=2: pairs over {1,W-1,W,W+1,2W,2W+1,3W}; N=3, 4: tuples over {1,W,W+1}) x line end {LF,CRLF} x final newline {yes,no} x description {no,' d'} x blank line between records {no,yes}; bases cycle through ACGT shifted per record; the last record of a multi-record file has a name starting with '#'; every file is read through bytes.Reader and through an io.ReaderAt that returns io.EOF together with the last bytes. Oracle: NewIndex == true length/start/bases-per-line/bytes-per-line (the latter two where the layout determines them), WriteTo->ReadFrom->WriteTo identical, and for every record, every 0<=start<=end<=length and buffer size in {1,2,3,7,64}: SeqRange+Read loop returns exactly seq[start:end] then io.EOF within a horizon; Seq likewise. Non-trivial: files whose sequence spans more than one line or that hold several records."
	if c.Replay != nil {
		var cas c19case
		if err := json.Unmarshal(c.Replay, &cas); err != nil {
			c.Infra = err.Error()
			return
		}
		c19one(c, cas, cas.Name == "")
		return
	}
	var cases []c19case
	widths := []int{1, 2, 3, 4}
	if c.Thorough {
		widths = []int{1, 2, 3, 4, 5, 6, 7, 8, 61}
	}
	for _, w := range widths {
		var lensets [][]int
		for l := 1; l <= 3*w; l++ {
			if w > 8 && l != 1 && l%w > 1 && l%w < w-1 {
				continue // wide lines: lengths within one base of a line end only
			}
			lensets = append(lensets, []int{l})
		}
		uniq := func(v []int) []int {
			seen := map[int]bool{}
			var o []int
			for _, x := range v {
				if x >= 1 && !seen[x] {
					seen[x] = true
					o = append(o, x)
				}
			}
			return o
		}
		two := uniq([]int{1, w - 1, w, w + 1, 2 * w, 2*w + 1, 3 * w})
		for _, a := range two {
			for _, b := range two {
				lensets = append(lensets, []int{a, b})
			}
		}
		three := uniq([]int{1, w, w + 1})
		for _, a := range three {
			for _, b := range three {
				for _, d := range three {
					lensets = append(lensets, []int{a, b, d})
				}
			}
		}
		if c.Thorough && w <= 4 {
			for _, a := range three {
				for _, b := range three {
					for _, d := range three {
						for _, e := range three {
							lensets = append(lensets, []int{a, b, d, e})
						}
					}
				}
			}
		}
		for _, ls := range lensets {
			for _, crlf := range []bool{false, true} {
				for _, fin := range []bool{true, false} {
					for _, desc := range []bool{false, true} {
						for _, blank := range []bool{false, true} {
							if blank && len(ls) == 1 {
								continue
							}
							cases = append(cases, c19case{Lens: ls, W: w, CRLF: crlf, Final: fin, Desc: desc, Blank: blank})
						}
					}
				}
			}
		}
	}
	parallel(len(cases), func(i int) { c19one(c, cases[i], true) })
	var nt int64
	for _, cas := range cases {
		if len(cas.Lens) > 1 || cas.Lens[0] > cas.W {
			nt++
		}
	}
	c.NontrivialN(nt)
	c.AddExtra("files", int64(len(cases)))
	c.Sample(cases[0])
	c.Sample(cases[len(cases)/2])
	c.Sample(map[string]string{"file": strings.ReplaceAll(string(func() []byte { b, _ := buildFasta(cases[len(cases)-1]); return b }()), "\r", "\\r")})
}
