package main

import (
	"runtime"
	"strings"
)

// panicSite returns the innermost frame inside the library (github.com/biogo/hts, not a verif
// hook) of the panicking goroutine, as "pkg.Func", and a trimmed stack.
func panicSite() (string, string) {
	pcs := make([]uintptr, 64)
	n := runtime.Callers(3, pcs)
	frames := runtime.CallersFrames(pcs[:n])
	site := ""
	var sb strings.Builder
	k := 0
	for {
		fr, more := frames.Next()
		if strings.Contains(fr.Function, "github.com/biogo/hts") {
			fn := strings.TrimPrefix(fr.Function, "github.com/biogo/hts/")
			if site == "" {
				site = fn
			}
			if k < 8 {
				sb.WriteString("  " + fn + "\n")
				k++
			}
		}
		if !more {
			break
		}
	}
	if site == "" {
		site = "outside-library"
	}
	return site, sb.String()
}

func workerUnused() {}
