package main

import (
	"bytes"
	"encoding/json"
	"fmt"
	"github.com/biogo/hts/bgzf/cache"
	"io"
	"sort"
	"sync/atomic"

	"github.com/biogo/hts/bam"
	"github.com/biogo/hts/bgzf"
	"github.com/biogo/hts/bgzf/index"

	"verif/rdr"
	"verif/refimpl"
)

func init() { register("C13", "chunks", c13) }

type c13case struct {
	Kind string `json:"kind"` // "bam" or "chunkreader"
	// bam
	Cuts  []int    `json:"cuts,omitempty"`  // cut positions in the uncompressed BAM stream
	Empty int      `json:"empty,omitempty"` // index of the cut after which an empty block is inserted, -1 none
	RD    int      `json:"rd,omitempty"`
	List  [][2]int `json:"list,omitempty"`  // chunks as (first record, last record)
	Cache int      `json:"cache,omitempty"` // capacity of an LRU block cache attached before the chunk lists (0: none)
	// chunkreader
	Lens   []int    `json:"lens,omitempty"`
	Marker bool     `json:"marker,omitempty"`
	Chunks [][4]int `json:"chunks,omitempty"` // block, off, block, off
	Buf    int      `json:"buf,omitempty"`
}

// the BAM stream used for the chunk tests: 4 records of different sizes
func c13stream() (stream []byte, bounds []int, names []string) {
	refs := []refimpl.RefInfo{{Name: "chr1", Len: 100000}}
	stream = refimpl.BAMHeader("@HD\tVN:1.6\tSO:coordinate\n@SQ\tSN:chr1\tLN:100000\n", refs)
	bounds = append(bounds, len(stream))
	seqs := []int{4, 1, 30, 7, 12}
	for i, l := range seqs {
		seq := make([]byte, l)
		q := make([]byte, l)
		for j := range seq {
			seq[j] = "ACGT"[(i+j)%4]
			q[j] = byte(20 + j%20)
		}
		r := &refimpl.Rec{Name: fmt.Sprintf("read%d", i), RefID: 0, Pos: 100 * (i + 1), MapQ: 30, MateRefID: -1, MatePos: -1,
			Cigar: []uint32{uint32(l)<<4 | 0}, Seq: string(seq), Qual: q}
		stream = append(stream, refimpl.BAMRecord(r)...)
		bounds = append(bounds, len(stream))
		names = append(names, r.Name)
	}
	return
}

func c13file(stream []byte, cuts []int, empty int) []byte {
	var blocks [][]byte
	prev := 0
	for i, cpos := range cuts {
		blocks = append(blocks, stream[prev:cpos])
		if i == empty {
			blocks = append(blocks, nil)
		}
		prev = cpos
	}
	blocks = append(blocks, stream[prev:])
	data, _ := refimpl.EncodeFile(blocks, 1, true)
	return data
}

// c13bam checks one re-blocked file: sequential read, then every chunk list.
func c13bam(c *Ctx, stream []byte, bounds []int, names []string, cas c13case, lists [][][2]int, evals *int64) {
	data := c13file(stream, cas.Cuts, cas.Empty)
	guard(c, "bam", cas, func() {
		r, err := bam.NewReader(bytes.NewReader(data), cas.RD)
		if err != nil {
			c.Violate("bam:newreader", fmt.Sprintf("NewReader on the file cut at %v: %v", cas.Cuts, err), cas)
			return
		}
		defer r.Close()
		var chunks []bgzf.Chunk
		for i := 0; ; i++ {
			rec, err := r.Read()
			if err == io.EOF {
				break
			}
			if err != nil {
				c.Violate("bam:sequential-read", fmt.Sprintf("record %d of the file cut at %v: %v", i, cas.Cuts, err), cas)
				return
			}
			if i >= len(names) || rec.Name != names[i] {
				c.Violate("bam:sequential-read", fmt.Sprintf("record %d of the file cut at %v has name %q", i, cas.Cuts, rec.Name), cas)
				return
			}
			chunks = append(chunks, r.LastChunk())
		}
		if len(chunks) != len(names) {
			c.Violate("bam:sequential-read", fmt.Sprintf("file cut at %v: %d records read, %d written", cas.Cuts, len(chunks), len(names)), cas)
			return
		}
		if cas.Cache > 0 {
			r.SetCache(cache.NewLRU(cas.Cache))
		}
		for _, l := range lists {
			var cl []bgzf.Chunk
			var want []string
			for _, ij := range l {
				cl = append(cl, bgzf.Chunk{Begin: chunks[ij[0]].Begin, End: chunks[ij[1]].End})
				want = append(want, names[ij[0]:ij[1]+1]...)
			}
			atomic.AddInt64(evals, 1)
			it, err := bam.NewIterator(r, cl)
			if err != nil {
				cc := cas
				cc.List = l
				c.Violate("bam:iterator-error", fmt.Sprintf("NewIterator(%v) on the file cut at %v: %v", l, cas.Cuts, err), cc)
				return
			}
			var got []string
			for n := 0; it.Next() && n < 64; n++ {
				got = append(got, it.Record().Name)
			}
			err = it.Close()
			if err != nil || fmt.Sprint(got) != fmt.Sprint(want) {
				cc := cas
				cc.List = l
				kind := "single"
				if len(l) > 1 {
					kind = "list"
					for k := 1; k < len(l); k++ {
						if l[k][0] <= l[k-1][1] {
							kind = "list-unordered-or-overlapping"
						}
					}
				}
				c.Violate("bam:iterator-wrong-records:"+kind, fmt.Sprintf("file cut at %v (empty block after cut %d), rd=%d: chunks for records %v yield %v (err %v), want %v", cas.Cuts, cas.Empty, cas.RD, l, got, err, want), cc)
				return
			}
		}
	})
}

// c13cr checks one ChunkReader run.
func c13cr(c *Ctx, f *rdr.File, cas c13case) {
	var cl []bgzf.Chunk
	var want []byte
	off := func(b, o int) bgzf.Offset { return bgzf.Offset{File: f.Bases[b], Block: uint16(o)} }
	for _, ch := range cas.Chunks {
		k := bgzf.Chunk{Begin: off(ch[0], ch[1]), End: off(ch[2], ch[3])}
		cl = append(cl, k)
		want = append(want, f.Flat[f.FlatOf(k.Begin):f.FlatOf(k.End)]...)
	}
	guard(c, "chunkreader", cas, func() {
		r, err := bgzf.NewReader(bytes.NewReader(f.Data), 1)
		if err != nil {
			c.Violate("chunkreader:newreader", err.Error(), cas)
			return
		}
		defer r.Close()
		cr, err := index.NewChunkReader(r, cl)
		if err != nil {
			c.Violate("chunkreader:new-error", fmt.Sprintf("NewChunkReader(%v) on %s: %v", cas.Chunks, f.Name, err), cas)
			return
		}
		var got []byte
		bufN := cas.Buf
		if bufN < 0 {
			bufN = -bufN // negative: every read is preceded by a zero-length Read
		}
		buf := make([]byte, bufN)
		sawEOF := false
		var rerr error
		for it := 0; it < 4*len(f.Flat)+8*len(cl)+16; it++ {
			if cas.Buf < 0 {
				if n0, err0 := cr.Read(buf[:0]); n0 != 0 || err0 != nil && err0 != io.EOF {
					rerr = fmt.Errorf("zero-length Read returned %d, %v", n0, err0)
					break
				} else if err0 == io.EOF {
					sawEOF = true
					break
				}
			}
			n, err := cr.Read(buf)
			got = append(got, buf[:n]...)
			if err == io.EOF {
				sawEOF = true
				break
			}
			if err != nil {
				rerr = err
				break
			}
		}
		zero := ""
		for _, ch := range cas.Chunks {
			if f.FlatOf(off(ch[0], ch[1])) == f.FlatOf(off(ch[2], ch[3])) {
				zero = ":with-zero-length-chunk"
			}
		}
		switch {
		case rerr != nil:
			c.Violate("chunkreader:error"+zero, fmt.Sprintf("%s chunks %v buffer %d: Read returned %v after %v", f.Name, cas.Chunks, cas.Buf, rerr, got), cas)
		case !bytes.Equal(got, want):
			c.Violate("chunkreader:wrong-bytes"+zero, fmt.Sprintf("%s chunks %v buffer %d: read %v, the chunks hold %v", f.Name, cas.Chunks, cas.Buf, got, want), cas)
		case !sawEOF:
			c.Violate("chunkreader:no-eof"+zero, fmt.Sprintf("%s chunks %v buffer %d: all bytes returned but no io.EOF within the horizon", f.Name, cas.Chunks, cas.Buf), cas)
		}
	})
}

func c13(c *Ctx) {
	c.Rule = "BAM: the uncompressed stream of a header and 5 records (reference BAM encoder) re-blocked by the independent BGZF encoder at every set of <=2 cut positions from {every record boundary, boundary-1, +1, +2 (inside the length prefix), mid-record}, with and without an empty block after a cut; sequential read notes the chunk of each record; then for every list of <=2 (thorough <=3) chunks [Begin_i,End_j] in every order (ordered, descending, overlapping, repeated) the Iterator must yield exactly the records i..j of each chunk in list order; rd in {1,2}, at rd=1 also with an LRU(2) block cache attached. ChunkReader: the six C02 files plus [2 4]+EOF and [1 1 4] (a last block long enough to be consumed in several reads with data after the chunk end); every list of <=2 (thorough <=3) chunks, non-overlapping and ascending, with boundaries over ALL virtual offsets of the file (both spellings of a block end); buffer sizes {1,2,3,64} and 2 with a zero-length Read before every Read; oracle = flat bytes between each Begin and End, concatenated, then io.EOF within a horizon. Non-trivial: lists with a chunk crossing a block boundary or with >=2 chunks."
	stream, bounds, names := c13stream()
	if c.Replay != nil {
		var cas c13case
		if err := json.Unmarshal(c.Replay, &cas); err != nil {
			c.Infra = err.Error()
			return
		}
		if cas.Kind == "bam" {
			var n int64
			c13bam(c, stream, bounds, names, cas, [][][2]int{cas.List}, &n)
		} else {
			f := rdr.MakeFile(fmt.Sprint(cas.Lens), cas.Lens, cas.Marker)
			c13cr(c, f, cas)
		}
		return
	}
	// ---- BAM
	cutSet := map[int]bool{}
	for i, b := range bounds {
		for _, d := range []int{-1, 0, 1, 2} {
			if p := b + d; p > 0 && p < len(stream) {
				cutSet[p] = true
			}
		}
		if i+1 < len(bounds) {
			cutSet[(b+bounds[i+1])/2] = true
		}
	}
	var cutPos []int
	for p := range cutSet {
		cutPos = append(cutPos, p)
	}
	sort.Ints(cutPos)
	var cutSets [][]int
	cutSets = append(cutSets, nil)
	for i, a := range cutPos {
		cutSets = append(cutSets, []int{a})
		for _, b := range cutPos[i+1:] {
			cutSets = append(cutSets, []int{a, b})
		}
	}
	n := len(names)
	var ranges [][2]int
	for i := 0; i < n; i++ {
		for j := i; j < n; j++ {
			ranges = append(ranges, [2]int{i, j})
		}
	}
	var lists [][][2]int
	for _, a := range ranges {
		lists = append(lists, [][2]int{a})
	}
	for _, a := range ranges {
		for _, b := range ranges {
			lists = append(lists, [][2]int{a, b})
		}
	}
	if c.Thorough {
		small := [][2]int{{0, 0}, {1, 2}, {2, 2}, {0, 4}, {3, 4}, {4, 4}}
		for _, a := range small {
			for _, b := range small {
				for _, d := range small {
					lists = append(lists, [][2]int{a, b, d})
				}
			}
		}
	}
	var cases []c13case
	for _, cs := range cutSets {
		for e := -1; e < len(cs); e++ {
			for _, rd := range []int{1, 2} {
				if !c.Thorough && rd == 2 && len(cs) == 2 && e >= 0 {
					continue
				}
				cases = append(cases, c13case{Kind: "bam", Cuts: cs, Empty: e, RD: rd})
				if rd == 1 && (c.Thorough || e < 0) {
					// the same with a block cache (rd=1 only: read-ahead with a cache has open findings, see C03)
					cases = append(cases, c13case{Kind: "bam", Cuts: cs, Empty: e, RD: rd, Cache: 2})
				}
			}
		}
	}
	var evals int64
	parallel(len(cases), func(i int) { c13bam(c, stream, bounds, names, cases[i], lists, &evals) })
	c.AddExtra("bam_files", int64(len(cases)))
	c.AddExtra("bam_chunk_lists_per_file", int64(len(lists)))
	c.AddExtra("bam_iterator_runs", evals)
	c.Eval(evals)
	c.NontrivialN(evals * int64(len(lists)-len(ranges)) / int64(len(lists)))
	c.Sample(cases[len(cases)/3])
	// ---- ChunkReader
	files := []rfile{{lens: []int{3, 1, 2}, marker: true}, {lens: []int{2, 0, 3}, marker: true}, {lens: []int{1, 2, 0}, marker: true}, {lens: []int{3, 1, 2}, marker: false}, {lens: []int{2, 0, 3}, marker: false}, {lens: []int{1, 2, 0}, marker: false}, {lens: []int{2, 4}, marker: true}, {lens: []int{1, 1, 4}, marker: false}}
	var crn, crnt int64
	for _, rf := range files {
		f := rdr.MakeFile(rf.name(), rf.lens, rf.marker)
		type voff struct{ b, o int }
		var offs []voff
		for b := 0; b < f.NBlocks(); b++ {
			l := 0
			if b < len(f.Blocks) {
				l = len(f.Blocks[b])
			}
			for o := 0; o <= l; o++ {
				offs = append(offs, voff{b, o})
			}
		}
		// chunks: Begin <= End in virtual-offset order
		var chunks [][4]int
		for i, a := range offs {
			for _, b := range offs[i:] {
				chunks = append(chunks, [4]int{a.b, a.o, b.b, b.o})
			}
		}
		flat := func(b, o int) int { return f.FlatOf(bgzf.Offset{File: f.Bases[b], Block: uint16(o)}) }
		idx := func(b, o int) int {
			for i, x := range offs {
				if x.b == b && x.o == o {
					return i
				}
			}
			return -1
		}
		var clists [][][4]int
		for _, a := range chunks {
			clists = append(clists, [][4]int{a})
		}
		for _, a := range chunks {
			for _, b := range chunks {
				if idx(a[2], a[3]) <= idx(b[0], b[1]) {
					clists = append(clists, [][4]int{a, b})
				}
			}
		}
		if c.Thorough {
			for _, a := range chunks {
				for _, b := range chunks {
					if idx(a[2], a[3]) > idx(b[0], b[1]) {
						continue
					}
					for _, d := range chunks {
						if idx(b[2], b[3]) <= idx(d[0], d[1]) && flat(a[0], a[1]) < flat(a[2], a[3]) && flat(d[0], d[1]) < flat(d[2], d[3]) {
							clists = append(clists, [][4]int{a, b, d})
						}
					}
				}
			}
		}
		parallel(len(clists), func(i int) {
			for _, bufN := range []int{1, 2, 3, 64, -2} {
				c13cr(c, f, c13case{Kind: "chunkreader", Lens: rf.lens, Marker: rf.marker, Chunks: clists[i], Buf: bufN})
			}
		})
		crn += int64(len(clists) * 5)
		for _, l := range clists {
			if len(l) >= 2 || l[0][0] != l[0][2] {
				crnt += 5
			}
		}
	}
	c.AddExtra("chunkreader_runs", crn)
	c.Eval(crn)
	c.NontrivialN(crnt)
	c.Sample(c13case{Kind: "chunkreader", Lens: []int{3, 1, 2}, Marker: true, Chunks: [][4]int{{0, 1, 1, 0}, {1, 1, 2, 2}}, Buf: 2})
}
