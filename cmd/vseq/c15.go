package main

import (
	"bytes"
	"fmt"
	"sync/atomic"
	"testing/iotest"

	"github.com/biogo/hts/bgzf"
)

// c15check: write -> read -> write identity, equal answers and equal, true statistics.
func c15check(c *Ctx, cas c04case, x idx, queries [][2]int, nrefs int, evals, nontriv *int64) {
	guard(c, cas.Kind+":roundtrip", cas, func() {
		if t, ok := x.(tbxIdx); ok {
			// header settings vary with the state so that all values are exercised
			n := len(cas.Recs)
			t.x.Format = byte(n % 3)
			t.x.ZeroBased = ((n+2)/3)%2 == 1 // with Format = n%3: n=1,2,3 give the flag with formats 1, 2, 0; n=4,5,6 the same formats without it
			t.x.NameColumn, t.x.BeginColumn, t.x.EndColumn = 1, int32(2+n%2), int32(n%3)
			t.x.MetaChar = []rune{'#', '@', 0}[n%3]
			t.x.Skip = int32(n % 2)
		}
		if t, ok := x.(csiIdx); ok && len(cas.Recs)%2 == 1 {
			t.x.Auxilliary = []byte{1, 2, 3, 4, 5}
		}
		b1, err := x.write()
		if err != nil {
			c.Violate(cas.Kind+":write-error", fmt.Sprintf("writing the index built from %+v: %v", cas.Recs, err), cas)
			return
		}
		y, err := x.read(b1)
		if err != nil {
			c.Violate(cas.Kind+":read-error", fmt.Sprintf("re-reading the index built from %+v (%d bytes): %v", cas.Recs, len(b1), err), cas)
			return
		}
		b2, err := y.write()
		atomic.AddInt64(evals, 1)
		if err != nil || !bytes.Equal(b1, b2) {
			c.Violate(cas.Kind+":bytes-differ", fmt.Sprintf("index built from %+v: written, re-read and written again differs (%d vs %d bytes, first difference at %d, err %v)", cas.Recs, len(b1), len(b2), firstDiff(b1, b2), err), cas)
			return
		}
		// the same through a source that delivers one byte per Read (pipes and sockets do)
		if y1, err := x.readFrom(iotest.OneByteReader(bytes.NewReader(b1))); err != nil {
			c.Violate(cas.Kind+":read-error:short-reads", fmt.Sprintf("re-reading the index built from %+v from a one-byte-at-a-time source: %v", cas.Recs, err), cas)
			return
		} else if b3, err := y1.write(); err != nil || !bytes.Equal(b1, b3) {
			c.Violate(cas.Kind+":bytes-differ:short-reads", fmt.Sprintf("index built from %+v: written, re-read from a one-byte-at-a-time source and written again differs (%d vs %d bytes, first difference at %d, err %v)", cas.Recs, len(b1), len(b3), firstDiff(b1, b3), err), cas)
			return
		}
		// statistics: equal on both sides and equal to the truth
		type cnt struct{ mapped, unmapped uint64 }
		truth := map[int]*cnt{}
		var unplaced uint64
		maxRef := -1
		span := map[int][2]int{}
		dense := map[int]int{} // tabix numbers references by first appearance of their names
		for k, r := range cas.Recs {
			if r.Ref < 0 {
				unplaced++
				continue
			}
			if cas.Kind == "tabix" {
				if _, ok := dense[r.Ref]; !ok {
					dense[r.Ref] = len(dense)
				}
				r.Ref = dense[r.Ref]
			}
			if r.Ref > maxRef {
				maxRef = r.Ref
			}
			t := truth[r.Ref]
			if t == nil {
				t = &cnt{}
				truth[r.Ref] = t
				span[r.Ref] = [2]int{k, k}
			}
			span[r.Ref] = [2]int{span[r.Ref][0], k}
			if r.Unmapped {
				t.unmapped++
			} else {
				t.mapped++
			}
		}
		for side, z := range []idx{x, y} {
			name := []string{"built", "re-read"}[side]
			if z.numRefs() != maxRef+1 {
				c.Violate(cas.Kind+":NumRefs:"+name, fmt.Sprintf("index (%s) from %+v: NumRefs=%d, want %d", name, cas.Recs, z.numRefs(), maxRef+1), cas)
				return
			}
			for id := 0; id <= maxRef; id++ {
				st, ok := z.refStats(id)
				t := truth[id]
				if t == nil {
					if ok && (st.Mapped != 0 || st.Unmapped != 0) {
						c.Violate(cas.Kind+":stats-empty-ref:"+name, fmt.Sprintf("index (%s) from %+v: reference %d has no records but reports %+v", name, cas.Recs, id, st), cas)
						return
					}
					continue
				}
				wantChunk := bgzf.Chunk{Begin: chunkOf(span[id][0]).Begin, End: chunkOf(span[id][1]).End}
				if !ok || st.Mapped != t.mapped || st.Unmapped != t.unmapped || st.Chunk != wantChunk {
					c.Violate(cas.Kind+":stats:"+name, fmt.Sprintf("index (%s) from %+v: reference %d reports %+v (ok=%v), true counts mapped=%d unmapped=%d span=%v", name, cas.Recs, id, st, ok, t.mapped, t.unmapped, wantChunk), cas)
					return
				}
			}
			n, ok := z.unmapped()
			if (ok && n != unplaced) || (!ok && unplaced != 0) {
				c.Violate(cas.Kind+":unplaced:"+name, fmt.Sprintf("index (%s) from %+v: Unmapped()=%d,%v; %d unplaced records were added", name, cas.Recs, n, ok, unplaced), cas)
				return
			}
		}
		if t, ok := x.(tbxIdx); ok {
			u := y.(tbxIdx)
			if u.x.Format != t.x.Format || u.x.ZeroBased != t.x.ZeroBased || u.x.NameColumn != t.x.NameColumn || u.x.BeginColumn != t.x.BeginColumn ||
				u.x.EndColumn != t.x.EndColumn || u.x.MetaChar != t.x.MetaChar || u.x.Skip != t.x.Skip || fmt.Sprint(u.x.Names()) != fmt.Sprint(t.x.Names()) {
				c.Violate("tabix:header-fields", fmt.Sprintf("tabix header re-read as %+v names %v, written %+v names %v", *u.x, u.x.Names(), *t.x, t.x.Names()), cas)
				return
			}
		}
		if t, ok := x.(csiIdx); ok {
			u := y.(csiIdx)
			if !bytes.Equal(u.x.Auxilliary, t.x.Auxilliary) || u.x.Version != t.x.Version {
				c.Violate("csi:aux-or-version", fmt.Sprintf("csi aux/version re-read as %v/%d, written %v/%d", u.x.Auxilliary, u.x.Version, t.x.Auxilliary, t.x.Version), cas)
				return
			}
		}
		// every query answers identically
		for ref := 0; ref < nrefs; ref++ {
			for _, q := range queries {
				a, ea := x.chunks(ref, q[0], q[1])
				b, eb := y.chunks(ref, q[0], q[1])
				atomic.AddInt64(evals, 1)
				if (ea == nil) != (eb == nil) || fmt.Sprint(a) != fmt.Sprint(b) {
					cc := cas
					cc.Query = []int{ref, q[0], q[1]}
					c.Violate(cas.Kind+":answers-differ", fmt.Sprintf("index from %+v: Chunks(ref %d, %d, %d) = %v,%v before and %v,%v after write/read", cas.Recs, ref, q[0], q[1], a, ea, b, eb), cc)
					return
				}
			}
		}
		if len(cas.Recs) >= 2 {
			atomic.AddInt64(nontriv, 1)
		}
	})
}
