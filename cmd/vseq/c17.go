package main

import (
	"encoding/json"
	"fmt"
	"sync/atomic"

	"github.com/biogo/hts/bgzf"
	"github.com/biogo/hts/bgzf/index"
)

func init() { register("C17", "merge", c17) }

type c17case struct {
	Strategy string   `json:"strategy"`
	Near     int64    `json:"near,omitempty"`
	Chunks   [][4]int `json:"chunks"` // begin.file, begin.block, end.file, end.block
}

func vo(o bgzf.Offset) int64 { return o.File<<16 | int64(o.Block) }

func c17chunks(cs [][4]int) []bgzf.Chunk {
	out := make([]bgzf.Chunk, len(cs))
	for i, c := range cs {
		out[i] = bgzf.Chunk{Begin: bgzf.Offset{File: int64(c[0]), Block: uint16(c[1])}, End: bgzf.Offset{File: int64(c[2]), Block: uint16(c[3])}}
	}
	return out
}

// cover returns which elementary intervals of the grid are covered by the chunks.
func cover(grid []bgzf.Offset, cs []bgzf.Chunk) []bool {
	cv := make([]bool, len(grid)-1)
	for _, c := range cs {
		for i := 0; i+1 < len(grid); i++ {
			if vo(c.Begin) <= vo(grid[i]) && vo(c.End) >= vo(grid[i+1]) {
				cv[i] = true
			}
		}
	}
	return cv
}

func c17one(c *Ctx, grid []bgzf.Offset, cas c17case) {
	var strat index.MergeStrategy
	switch cas.Strategy {
	case "Identity":
		strat = index.Identity
	case "Adjacent":
		strat = index.Adjacent
	case "Squash":
		strat = index.Squash
	default:
		strat = index.CompressorStrategy(cas.Near)
	}
	name := cas.Strategy
	in := c17chunks(cas.Chunks)
	guard(c, name, cas, func() {
		out := strat(c17chunks(cas.Chunks)) // the strategies work in place: give them a copy
		fail := func(kind, msg string) {
			c.Violate(name+":"+kind, fmt.Sprintf("%s(%d) on %v -> %v: %s", cas.Strategy, cas.Near, in, out, msg), cas)
		}
		for i := 1; i < len(out); i++ {
			if vo(out[i-1].Begin) > vo(out[i].Begin) {
				fail("unsorted", "output is not sorted by Begin")
				return
			}
		}
		ci, co := cover(grid, in), cover(grid, out)
		for i := range ci {
			if ci[i] && !co[i] {
				fail("coverage-lost", fmt.Sprintf("positions [%v,%v) are covered by the input but not by the output", grid[i], grid[i+1]))
				return
			}
		}
		switch cas.Strategy {
		case "Adjacent":
			for i := range ci {
				if co[i] && !ci[i] {
					fail("coverage-added", fmt.Sprintf("positions [%v,%v) are covered by the output only", grid[i], grid[i+1]))
					return
				}
			}
			for i := 1; i < len(out); i++ {
				if vo(out[i-1].End) >= vo(out[i].Begin) {
					fail("not-separated", "neighbouring output chunks touch or overlap")
					return
				}
			}
		case "Squash":
			if len(in) == 0 {
				if len(out) != 0 {
					fail("empty", "empty input must give no chunk")
				}
				break
			}
			lo, hi := in[0].Begin, in[0].End
			for _, x := range in {
				if vo(x.Begin) < vo(lo) {
					lo = x.Begin
				}
				if vo(x.End) > vo(hi) {
					hi = x.End
				}
			}
			if len(out) != 1 || out[0].Begin != lo || out[0].End != hi {
				fail("not-enclosing", fmt.Sprintf("want the single enclosing chunk {%v %v}", lo, hi))
				return
			}
		case "Compressor":
			for i := 1; i < len(out); i++ {
				if out[i-1].End.File+cas.Near >= out[i].Begin.File {
					fail("neighbours-too-close", fmt.Sprintf("output chunks %d and %d are closer than the threshold", i-1, i))
					return
				}
			}
		}
		again := strat(append([]bgzf.Chunk(nil), out...))
		if len(again) != len(out) {
			fail("not-idempotent", fmt.Sprintf("applying the strategy again gives %v", again))
			return
		}
		for i := range out {
			if out[i] != again[i] {
				fail("not-idempotent", fmt.Sprintf("applying the strategy again gives %v", again))
				return
			}
		}
	})
}

func c17(c *Ctx) {
	c.Rule = "offsets O={(0,0),(0,1),(1,0),(1,1),(2,0),(3,0)}; chunks = all Begin<=End pairs over O (21, incl. zero-length); all lists of length 0..4 (thorough 0..7) with non-decreasing Begin (every order among equal Begins), plus all lists of length 5..6 (thorough 8..10) over the 4-offset alphabet {(0,0),(0,1),(1,0),(2,0)}; strategies Identity, Adjacent, Squash, Compressor(n) for n in {0,1,2,65536,2^47,2^62+5}. Oracle on the grid of elementary intervals between consecutive offsets: output sorted by Begin; every covered input interval covered by the output; Adjacent: exactly the input's intervals and End_i < Begin_{i+1}; Squash: the single enclosing chunk; Compressor(n): no neighbours with End.File+n >= Begin.File; idempotence. Non-trivial: lists with >= 2 chunks."
	grid6 := []bgzf.Offset{{0, 0}, {0, 1}, {1, 0}, {1, 1}, {2, 0}, {3, 0}}
	grid4 := []bgzf.Offset{{0, 0}, {0, 1}, {1, 0}, {2, 0}}
	strategies := []c17case{{Strategy: "Identity"}, {Strategy: "Adjacent"}, {Strategy: "Squash"}, {Strategy: "Compressor", Near: 0}, {Strategy: "Compressor", Near: 1}, {Strategy: "Compressor", Near: 2}, {Strategy: "Compressor", Near: 1 << 16}, {Strategy: "Compressor", Near: 1 << 47}, {Strategy: "Compressor", Near: 1<<62 + 5}}
	if c.Replay != nil {
		var cas c17case
		if err := json.Unmarshal(c.Replay, &cas); err != nil {
			c.Infra = err.Error()
			return
		}
		c17one(c, grid6, cas)
		return
	}
	enum := func(grid []bgzf.Offset, minLen, maxLen int) {
		var all [][4]int
		for i, b := range grid {
			for _, e := range grid[i:] {
				all = append(all, [4]int{int(b.File), int(b.Block), int(e.File), int(e.Block)})
			}
		}
		// depth-first over the lists, one task per first chunk (plus the empty list), nothing
		// materialised: every list of length minLen..maxLen is run through every strategy
		var nlists, nnt int64
		var rec func(cur [][4]int, nl, nt *int64)
		rec = func(cur [][4]int, nl, nt *int64) {
			if len(cur) >= minLen {
				*nl++
				if len(cur) >= 2 {
					*nt++
				}
				for _, s := range strategies {
					cas := s
					cas.Chunks = cur
					c17one(c, grid, cas)
				}
			}
			if len(cur) == maxLen {
				return
			}
			for _, ch := range all {
				if n := len(cur); n > 0 {
					last := cur[n-1]
					if last[0] > ch[0] || last[0] == ch[0] && last[1] > ch[1] {
						continue
					}
				}
				rec(append(cur, ch), nl, nt)
			}
		}
		// tasks: every legal prefix of length 2 (or shorter lists themselves)
		var prefixes [][][4]int
		prefixes = append(prefixes, nil)
		for _, a := range all {
			prefixes = append(prefixes, [][4]int{a})
		}
		parallel(len(prefixes), func(i int) {
			var nl, nt int64
			p := prefixes[i]
			if len(p) == 0 {
				// the empty list only (its extensions are the other tasks)
				if minLen == 0 {
					nl++
					for _, s := range strategies {
						cas := s
						c17one(c, grid, cas)
					}
				}
			} else if maxLen >= 1 {
				buf := make([][4]int, 1, maxLen+1)
				buf[0] = p[0]
				rec(buf, &nl, &nt)
			}
			atomic.AddInt64(&nlists, nl)
			atomic.AddInt64(&nnt, nt)
		})
		c.Eval(nlists * int64(len(strategies)))
		c.NontrivialN(nnt * int64(len(strategies)))
		c.AddCount("lists", nlists)
	}
	if c.Thorough {
		enum(grid6, 0, 7)
		enum(grid4, 8, 10)
	} else {
		enum(grid6, 0, 4)
		enum(grid4, 5, 6)
	}
	c.Sample(c17case{Strategy: "Adjacent", Chunks: [][4]int{{0, 0, 1, 0}, {0, 1, 0, 1}, {1, 0, 2, 0}}})
	c.Sample(c17case{Strategy: "Compressor", Near: 1, Chunks: [][4]int{{0, 0, 3, 0}, {0, 1, 1, 1}}})
}
