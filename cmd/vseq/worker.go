package main

import (
	"bytes"
	"encoding/json"
	"fmt"
	"os"
	"os/exec"
	"path/filepath"
	"regexp"
	"runtime/debug"
	"strconv"
	"strings"
	"sync"

	"verif/ev"
)

// Isolated workers: cases that can kill the process (unbounded recursion is a fatal, not a
// recoverable, error in Go; a decoder may ask for more memory than exists) run in child
// processes. The child records which case it is on; when it dies the parent attributes the
// death to that case, reports it and continues after it.

type isoJob struct {
	Prop     string            `json:"prop"`
	Part     string            `json:"part"`
	Handler  string            `json:"handler"`
	Thorough bool              `json:"thorough"`
	From     int               `json:"from"` // global index of Cases[0]
	Skip     map[int]bool      `json:"skip"` // global indexes not to run (they killed a worker before)
	Cases    []json.RawMessage `json:"cases"`
	Dir      string            `json:"dir"`
}

var isoHandlers = map[string]func(c *Ctx, raw json.RawMessage){}

// isoOOMIsViolation: a worker that exhausts its memory limit is a violation (C15: reading back
// one's own output) rather than an unjudged input (C11: arbitrary bytes, by the property's text).
var isoOOMIsViolation bool

const isoFlushEvery = 8

func runWorker(jobFile string) {
	debug.SetMaxStack(256 << 20) // a runaway recursion dies quickly instead of eating 1 GB
	b, err := os.ReadFile(jobFile)
	if err != nil {
		fmt.Fprintln(os.Stderr, err)
		os.Exit(2)
	}
	var job isoJob
	if err := json.Unmarshal(b, &job); err != nil {
		fmt.Fprintln(os.Stderr, err)
		os.Exit(2)
	}
	h := isoHandlers[job.Handler]
	c := &Ctx{Part: ev.NewPart(job.Prop, job.Part, ""), Thorough: job.Thorough}
	c.SetMaxSamples(0)
	progress := filepath.Join(job.Dir, "progress")
	flush := func(done int) {
		c.Write(filepath.Join(job.Dir, "part.json.tmp"))
		os.Rename(filepath.Join(job.Dir, "part.json.tmp"), filepath.Join(job.Dir, "part.json"))
		os.WriteFile(filepath.Join(job.Dir, "flushed"), []byte(strconv.Itoa(done)), 0o644)
	}
	for i, raw := range job.Cases {
		g := job.From + i
		if job.Skip[g] {
			continue
		}
		os.WriteFile(progress, []byte(strconv.Itoa(g)), 0o644)
		h(c, raw)
		if (i+1)%isoFlushEvery == 0 {
			flush(g)
		}
	}
	flush(job.From + len(job.Cases) - 1)
	os.WriteFile(filepath.Join(job.Dir, "complete"), []byte("1"), 0o644)
}

var fatalRe = regexp.MustCompile(`(?m)^fatal error: (.*)$`)

// runIsolated runs every case through handler in child processes (nproc at a time, the cases
// split into contiguous shards) and merges their parts into c. describe names a case in
// messages; class gives the signature class of a case (for fatal errors).
func runIsolated(c *Ctx, handler string, cases []interface{}, class func(i int) string, memLimitMB int) {
	// Cases are dealt round-robin to the shards (perm maps a shard-order index to the caller's
	// index) so that the expensive or deadly ones, which are contiguous in the caller's order,
	// do not all land in one shard.
	nshards := 16
	perm := make([]int, 0, len(cases))
	for s := 0; s < nshards; s++ {
		for i := s; i < len(cases); i += nshards {
			perm = append(perm, i)
		}
	}
	raws := make([]json.RawMessage, len(cases))
	for j, i := range perm {
		b, err := json.Marshal(cases[i])
		if err != nil {
			panic(err)
		}
		raws[j] = b
	}
	if class != nil {
		orig := class
		class = func(j int) string { return orig(perm[j]) }
	}
	self, _ := os.Executable()
	base, _ := os.MkdirTemp("/verif/.build", "iso")
	defer os.RemoveAll(base)
	nsh := 16
	if len(raws) < nsh*4 {
		nsh = (len(raws) + 3) / 4
	}
	if nsh < 1 {
		nsh = 1
	}
	per := (len(raws) + nsh - 1) / nsh
	var mu sync.Mutex
	var wg sync.WaitGroup
	for s := 0; s < nsh; s++ {
		lo, hi := s*per, (s+1)*per
		if hi > len(raws) {
			hi = len(raws)
		}
		if lo >= hi {
			continue
		}
		wg.Add(1)
		go func(s, lo, hi int) {
			defer wg.Done()
			from := lo
			skip := map[int]bool{}
			// every death skips one case for good, so the loop ends after at most hi-lo deaths
			for attempt := 0; from < hi; attempt++ {
				dir := filepath.Join(base, fmt.Sprintf("s%d-%d", s, attempt))
				os.MkdirAll(dir, 0o755)
				job := isoJob{Prop: c.Property, Part: c.Part.Part, Handler: handler, Thorough: c.Thorough, From: from, Skip: skip, Cases: raws[from:hi], Dir: dir}
				jb, _ := json.Marshal(job)
				jf := filepath.Join(dir, "job.json")
				os.WriteFile(jf, jb, 0o644)
				cmdline := fmt.Sprintf("ulimit -v %d; exec %q -worker %q", memLimitMB*1024, self, jf)
				cmd := exec.Command("/bin/sh", "-c", cmdline)
				var stderr bytes.Buffer
				cmd.Stderr = &stderr
				cmd.Env = append(os.Environ(), "GOMAXPROCS=2")
				err := cmd.Run()
				if p, perr := ev.ReadPart(filepath.Join(dir, "part.json")); perr == nil {
					mu.Lock()
					c.Merge(p)
					mu.Unlock()
				}
				if _, cerr := os.Stat(filepath.Join(dir, "complete")); cerr == nil && err == nil {
					os.RemoveAll(dir)
					return
				}
				// the worker died
				at := from
				if b, e := os.ReadFile(filepath.Join(dir, "progress")); e == nil {
					at, _ = strconv.Atoi(string(b))
				}
				flushed := from - 1
				if b, e := os.ReadFile(filepath.Join(dir, "flushed")); e == nil {
					flushed, _ = strconv.Atoi(string(b))
				}
				reason := "worker died: " + fmt.Sprint(err)
				kind := "fatal"
				if m := fatalRe.FindStringSubmatch(stderr.String()); m != nil {
					reason = "fatal error: " + m[1]
					kind = "fatal:" + strings.ReplaceAll(strings.TrimSpace(m[1]), " ", "_")
				}
				site := fatalSite(stderr.String())
				mu.Lock()
				if !isoOOMIsViolation && (strings.Contains(kind, "out_of_memory") || strings.Contains(kind, "cannot_allocate")) {
					// asking for more memory than the harness limit is counted, not judged
					c.AddCount("over_memory_limit", 1)
					c.Eval(1) // it was run; the dead worker's own count is lost
				} else {
					c.Violate(class(at)+":"+kind+":"+site, fmt.Sprintf("%s\nin %s\ncase %s", reason, site, clipStr(string(raws[at]))), json.RawMessage(raws[at]))
				}
				mu.Unlock()
				skip[at] = true
				from = flushed + 1
				os.RemoveAll(dir)
			}
		}(s, lo, hi)
	}
	wg.Wait()
}

// fatalSite extracts the innermost library frame from a Go fatal-error dump.
func fatalSite(dump string) string {
	for _, l := range strings.Split(dump, "\n") {
		if strings.HasPrefix(l, "github.com/biogo/hts/") {
			f := strings.TrimPrefix(l, "github.com/biogo/hts/")
			if i := strings.LastIndex(f, "("); i > 0 {
				f = f[:i]
			}
			return f
		}
	}
	return "unknown"
}
