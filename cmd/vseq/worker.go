package main

// runWorker is the entry point for isolated child processes (C11); filled in by total.go.
var workerMain func(payload string)

func runWorker(payload string) {
	if workerMain == nil {
		panic("no worker registered")
	}
	workerMain(payload)
}
