#!/bin/sh
# Auxiliary (sampling, not deciding): runs the scenario bodies of the scheduler-based parts free
# (pass-through mode: real goroutines) under the Go race detector. The cooperative scheduler's
# hand-offs are happens-before edges, so races are invisible there; this pass checks the
# data-race-freedom premise of the happens-before state key.  usage: racepass.sh [rounds]
cd /verif
export GOFLAGS=-mod=mod GOPROXY=off GOSUMDB=off GOTOOLCHAIN=local CGO_ENABLED=1
R=${1:-20}
rm -rf .build/race && mkdir -p .build/race
bin/vinst -repo /repo -out /verif/.build/race -rt /verif/vsched -maprange github.com/biogo/hts/bgzf/cache github.com/biogo/hts/bgzf github.com/biogo/hts/bgzf/cache >/dev/null || exit 2
go build -race -tags verif -overlay .build/race/overlay.json -o .build/race/vconc ./cmd/vconc || exit 2
rc=0
for pp in "C12 sched" "C01 sched" "C02 sched" "C03 sched" "C09 faults" "C14 cache"; do
  set -- $pp
  GORACE="halt_on_error=0 exitcode=66" .build/race/vconc -prop $1 -part $2 -tier quick -racepass $R > .build/race/$1.$2.log 2>&1 || rc=1
  tail -1 .build/race/$1.$2.log
  grep -c "WARNING: DATA RACE" .build/race/$1.$2.log | sed "s/^/  data race reports: /"
done
exit $rc
