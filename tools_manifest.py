#!/usr/bin/env python3
"""Regenerates MANIFEST.json from the table below (kept in one place so it stays valid)."""
import json, subprocess
checks = {}
def chk(pid, cat, text, note, technique, design_ref, engine):
    checks[pid] = {
        "property_id": pid,
        "quick_cmd": "./check %s quick" % pid,
        "thorough_cmd": "./check %s thorough" % pid,
        "evidence_file": "/verif/evidence/%s.json" % pid,
        "replay_cmd_template": "./check %s --replay {path}" % pid,
        "engine": engine,
        "level_claimed": {"category": cat, "text": text, "design_ref": design_ref},
        "level_note": note,
        "technique": technique,
    }
exec(open('/verif/manifest_table.py').read())
props = [json.loads(l)["id"] for l in open('/verif/properties.jsonl')]
na = [{"property_id": p, "reason": NOT_APPLICABLE.get(p, "check not built yet in this round; design in DESIGN.md §3")} for p in props if p not in checks]
hooks_commits = subprocess.run(["git","-C","/repo","log","--format=%h","--grep=^verif:"],capture_output=True,text=True).stdout.split()
m = {
 "version": 1,
 "setup_cmd": "./setup.sh",
 "hooks": {
  "guard": "verif",
  "enable": "go build -tags verif (add-only files */verif_hooks.go); scheduler instrumentation of bgzf and bgzf/cache is generated from the working tree by bin/vinst into a go build -overlay, never committed",
  "baseline_off_cmd": "cd /repo && GOFLAGS=-mod=mod GOPROXY=off GOSUMDB=off GOTOOLCHAIN=local go test -vet=off -count=1 -timeout 25m ./...",
  "source_commits": hooks_commits,
  "add_only": True,
 },
 "engines": ENGINES,
 "checks": [checks[p] for p in props if p in checks],
 "not_applicable": na,
 "notes": NOTES,
}
json.dump(m, open('/verif/MANIFEST.json','w'), indent=1)
print("claimed:", [p for p in props if p in checks])
