// vinst rewrites channel operations, go statements, select statements and the sync import of
// the given packages of /repo into calls to the vsched runtime and writes a go build overlay.
package main

import (
	"bytes"
	"encoding/json"
	"flag"
	"fmt"
	"go/ast"
	"go/format"
	"go/token"
	"go/types"
	"os"
	"path/filepath"
	"strconv"
	"strings"

	"golang.org/x/tools/go/ast/astutil"
	"golang.org/x/tools/go/packages"
)

const rtPath = "github.com/biogo/hts/vsched"

var (
	repo    = flag.String("repo", "/repo", "repository root")
	out     = flag.String("out", "", "output directory")
	rt      = flag.String("rt", "", "directory holding the vsched runtime sources")
	tags    = flag.String("tags", "verif", "build tags")
	mapPkgs = flag.String("maprange", "", "comma separated package paths whose map ranges become choice points")
)

func fail(f string, a ...interface{}) {
	fmt.Fprintf(os.Stderr, "vinst: "+f+"\n", a...)
	os.Exit(2)
}

func sel(x, name string) ast.Expr {
	return &ast.SelectorExpr{X: ast.NewIdent(x), Sel: ast.NewIdent(name)}
}

func call(fun ast.Expr, args ...ast.Expr) *ast.CallExpr { return &ast.CallExpr{Fun: fun, Args: args} }

func method(x ast.Expr, name string, args ...ast.Expr) *ast.CallExpr {
	return call(&ast.SelectorExpr{X: x, Sel: ast.NewIdent(name)}, args...)
}

type rewriter struct {
	info     *types.Info
	usesRT   bool
	mapRange bool
	err      error
	tmp      int
	gen      map[*ast.CallExpr]genInfo
}

type genInfo struct {
	kind string // "send", "recv"
	ch   ast.Expr
	val  ast.Expr
}

func (r *rewriter) genCall(e ast.Expr) (genInfo, bool) {
	for {
		p, ok := e.(*ast.ParenExpr)
		if !ok {
			break
		}
		e = p.X
	}
	c, ok := e.(*ast.CallExpr)
	if !ok {
		return genInfo{}, false
	}
	g, ok := r.gen[c]
	return g, ok
}

func (r *rewriter) isChan(e ast.Expr) bool {
	t := r.info.TypeOf(e)
	if t == nil {
		return false
	}
	_, ok := t.Underlying().(*types.Chan)
	return ok
}

func (r *rewriter) isMap(e ast.Expr) bool {
	t := r.info.TypeOf(e)
	if t == nil {
		return false
	}
	_, ok := t.Underlying().(*types.Map)
	return ok
}

func (r *rewriter) chanType(elem ast.Expr) ast.Expr {
	r.usesRT = true
	return &ast.StarExpr{X: &ast.IndexExpr{X: sel("vsched", "Chan"), Index: elem}}
}

func isArrow(e ast.Expr) (*ast.UnaryExpr, bool) {
	for {
		p, ok := e.(*ast.ParenExpr)
		if !ok {
			break
		}
		e = p.X
	}
	u, ok := e.(*ast.UnaryExpr)
	return u, ok && u.Op == token.ARROW
}

func (r *rewriter) selectStmt(s *ast.SelectStmt) ast.Stmt {
	r.usesRT = true
	hasDef := false
	var cases []ast.Expr
	var clauses []ast.Stmt
	idx := 0
	for _, c := range s.Body.List {
		cc := c.(*ast.CommClause)
		if cc.Comm == nil {
			hasDef = true
			clauses = append(clauses, &ast.CaseClause{Body: cc.Body})
			continue
		}
		var pre ast.Stmt
		selv := ast.NewIdent("_vsel")
		switch comm := cc.Comm.(type) {
		case *ast.ExprStmt: // children were rewritten: x.Send(v) or x.Recv()
			g, ok := r.genCall(comm.X)
			if !ok {
				r.err = fmt.Errorf("unsupported select case")
				return s
			}
			if g.kind == "send" {
				cases = append(cases, method(g.ch, "SendCase"))
				pre = &ast.ExprStmt{X: call(sel("vsched", "SelSend"), g.ch, selv, g.val)}
			} else {
				cases = append(cases, method(g.ch, "RecvCase"))
				pre = &ast.ExprStmt{X: call(sel("vsched", "SelRecv"), g.ch, selv)}
			}
		case *ast.AssignStmt:
			g, ok := r.genCall(comm.Rhs[0])
			if !ok || g.kind != "recv" {
				r.err = fmt.Errorf("unsupported select case")
				return s
			}
			cases = append(cases, method(g.ch, "RecvCase"))
			lhs := comm.Lhs
			if len(lhs) == 1 {
				lhs = []ast.Expr{lhs[0], ast.NewIdent("_")}
			}
			pre = &ast.AssignStmt{Lhs: lhs, Tok: comm.Tok, Rhs: []ast.Expr{call(sel("vsched", "SelRecv"), g.ch, selv)}}
		default:
			r.err = fmt.Errorf("unsupported select case %T", comm)
			return s
		}
		body := append([]ast.Stmt{pre}, cc.Body...)
		clauses = append(clauses, &ast.CaseClause{List: []ast.Expr{&ast.BasicLit{Kind: token.INT, Value: strconv.Itoa(idx)}}, Body: body})
		idx++
	}
	args := []ast.Expr{ast.NewIdent(strconv.FormatBool(hasDef))}
	args = append(args, cases...)
	return &ast.SwitchStmt{
		Init: &ast.AssignStmt{Lhs: []ast.Expr{ast.NewIdent("_vsel")}, Tok: token.DEFINE, Rhs: []ast.Expr{call(sel("vsched", "Select"), args...)}},
		Tag:  &ast.SelectorExpr{X: ast.NewIdent("_vsel"), Sel: ast.NewIdent("I")},
		Body: &ast.BlockStmt{List: clauses}}
}

func (r *rewriter) goStmt(g *ast.GoStmt) ast.Stmt {
	r.usesRT = true
	c := g.Call
	if len(c.Args) == 0 {
		return &ast.ExprStmt{X: call(sel("vsched", "Go"), c.Fun)}
	}
	if len(c.Args) <= 3 {
		args := append([]ast.Expr{c.Fun}, c.Args...)
		return &ast.ExprStmt{X: call(sel("vsched", "Go"+strconv.Itoa(len(c.Args))), args...)}
	}
	r.err = fmt.Errorf("unsupported go statement with %d args", len(c.Args))
	return g
}

func (r *rewriter) rangeStmt(s *ast.RangeStmt) ast.Stmt {
	if r.isChan(s.X) {
		r.usesRT = true
		ok := ast.NewIdent("_vok")
		var lhs0 ast.Expr = ast.NewIdent("_")
		tok := token.DEFINE
		if s.Key != nil {
			lhs0 = s.Key
			if s.Tok == token.ASSIGN {
				// v = range ch : declare ok separately
				tok = token.ASSIGN
			}
		}
		var stmts []ast.Stmt
		if tok == token.ASSIGN {
			stmts = append(stmts, &ast.DeclStmt{Decl: &ast.GenDecl{Tok: token.VAR, Specs: []ast.Spec{&ast.ValueSpec{Names: []*ast.Ident{ok}, Type: ast.NewIdent("bool")}}}})
		}
		stmts = append(stmts,
			&ast.AssignStmt{Lhs: []ast.Expr{lhs0, ok}, Tok: tok, Rhs: []ast.Expr{method(s.X, "Recv2")}},
			&ast.IfStmt{Cond: &ast.UnaryExpr{Op: token.NOT, X: ok}, Body: &ast.BlockStmt{List: []ast.Stmt{&ast.BranchStmt{Tok: token.BREAK}}}},
		)
		stmts = append(stmts, s.Body.List...)
		return &ast.ForStmt{Body: &ast.BlockStmt{List: stmts}}
	}
	if r.mapRange && r.isMap(s.X) && s.Tok == token.DEFINE {
		r.usesRT = true
		r.tmp++
		k := ast.NewIdent("_vk" + strconv.Itoa(r.tmp))
		var pre []ast.Stmt
		var key ast.Expr = ast.NewIdent("_")
		if id, ok := s.Key.(*ast.Ident); ok && id.Name != "_" {
			key = id
		}
		pre = append(pre, &ast.AssignStmt{Lhs: []ast.Expr{key}, Tok: token.DEFINE, Rhs: []ast.Expr{k}})
		if id, ok := key.(*ast.Ident); ok && id.Name == "_" {
			pre = nil
		}
		var val ast.Expr = ast.NewIdent("_")
		if s.Value != nil {
			val = s.Value
		}
		okid := ast.NewIdent("_vok" + strconv.Itoa(r.tmp))
		pre = append(pre,
			&ast.AssignStmt{Lhs: []ast.Expr{val, okid}, Tok: token.DEFINE, Rhs: []ast.Expr{&ast.IndexExpr{X: s.X, Index: k}}},
			&ast.IfStmt{Cond: &ast.UnaryExpr{Op: token.NOT, X: okid}, Body: &ast.BlockStmt{List: []ast.Stmt{&ast.BranchStmt{Tok: token.CONTINUE}}}},
		)
		body := append(pre, s.Body.List...)
		return &ast.RangeStmt{Key: ast.NewIdent("_"), Value: k, Tok: token.DEFINE, X: call(sel("vsched", "MapKeys"), s.X), Body: &ast.BlockStmt{List: body}}
	}
	return s
}

func (r *rewriter) file(f *ast.File) {
	r.gen = map[*ast.CallExpr]genInfo{}
	post := func(c *astutil.Cursor) bool {
		switch n := c.Node().(type) {
		case *ast.SelectStmt:
			c.Replace(r.selectStmt(n))
		case *ast.GoStmt:
			c.Replace(r.goStmt(n))
		case *ast.RangeStmt:
			c.Replace(r.rangeStmt(n))
		case *ast.AssignStmt:
			if len(n.Lhs) == 2 && len(n.Rhs) == 1 {
				if g, ok := r.genCall(n.Rhs[0]); ok && g.kind == "recv" {
					nc := method(g.ch, "Recv2")
					r.gen[nc] = g
					n.Rhs[0] = nc
				}
			}
		case *ast.ValueSpec:
			if len(n.Names) == 2 && len(n.Values) == 1 {
				if g, ok := r.genCall(n.Values[0]); ok && g.kind == "recv" {
					nc := method(g.ch, "Recv2")
					r.gen[nc] = g
					n.Values[0] = nc
				}
			}
		case *ast.SendStmt:
			r.usesRT = true
			nc := method(n.Chan, "Send", n.Value)
			r.gen[nc] = genInfo{kind: "send", ch: n.Chan, val: n.Value}
			c.Replace(&ast.ExprStmt{X: nc})
		case *ast.UnaryExpr:
			if n.Op == token.ARROW {
				r.usesRT = true
				nc := method(n.X, "Recv")
				r.gen[nc] = genInfo{kind: "recv", ch: n.X}
				c.Replace(nc)
			}
		case *ast.ChanType:
			c.Replace(r.chanType(n.Value))
		case *ast.CallExpr:
			id, ok := n.Fun.(*ast.Ident)
			if !ok {
				break
			}
			if obj, isB := r.info.Uses[id].(*types.Builtin); !isB || obj == nil {
				break
			}
			switch id.Name {
			case "make":
				// the ChanType child was already rewritten to *vsched.Chan[T]
				if st, ok := n.Args[0].(*ast.StarExpr); ok {
					if ix, ok := st.X.(*ast.IndexExpr); ok {
						if s, ok := ix.X.(*ast.SelectorExpr); ok && s.Sel.Name == "Chan" {
							var size ast.Expr = &ast.BasicLit{Kind: token.INT, Value: "0"}
							if len(n.Args) > 1 {
								size = n.Args[1]
							}
							c.Replace(call(&ast.IndexExpr{X: sel("vsched", "NewChan"), Index: ix.Index}, size))
						}
					}
				}
			case "close":
				c.Replace(method(n.Args[0], "Close"))
			case "len", "cap":
				if r.isChan(n.Args[0]) {
					name := "Len"
					if id.Name == "cap" {
						name = "Cap"
					}
					c.Replace(method(n.Args[0], name))
				}
			}
		}
		return true
	}
	astutil.Apply(f, nil, post)
	// drop comments (positions no longer match) but keep build constraints
	var keep []*ast.CommentGroup
	for _, cg := range f.Comments {
		if cg.End() < f.Package && strings.Contains(cg.Text(), "go:build") || strings.HasPrefix(cg.List[0].Text, "//go:build") {
			keep = append(keep, cg)
		}
	}
	f.Comments = keep
	f.Doc = nil
}

func main() {
	flag.Parse()
	pkgs := flag.Args()
	if *out == "" || len(pkgs) == 0 {
		fail("usage: vinst -out dir [-rt dir] pkg...")
	}
	mapSet := map[string]bool{}
	for _, p := range strings.Split(*mapPkgs, ",") {
		mapSet[p] = true
	}
	cfg := &packages.Config{
		Mode:       packages.NeedName | packages.NeedFiles | packages.NeedCompiledGoFiles | packages.NeedSyntax | packages.NeedTypes | packages.NeedTypesInfo | packages.NeedImports | packages.NeedDeps,
		Dir:        *repo,
		BuildFlags: []string{"-tags=" + *tags},
		Fset:       token.NewFileSet(),
	}
	loaded, err := packages.Load(cfg, pkgs...)
	if err != nil {
		fail("load: %v", err)
	}
	if packages.PrintErrors(loaded) > 0 {
		fail("packages have errors")
	}
	overlay := map[string]string{}
	os.MkdirAll(*out, 0o755)
	for _, p := range loaded {
		for i, f := range p.Syntax {
			name := p.CompiledGoFiles[i]
			r := &rewriter{info: p.TypesInfo, mapRange: mapSet[p.PkgPath]}
			r.file(f)
			if r.err != nil {
				fail("%s: %v", name, r.err)
			}
			changed := r.usesRT
			for _, imp := range f.Imports {
				if imp.Path.Value == `"sync"` {
					imp.Path.Value = strconv.Quote(rtPath + "/vsync")
					changed = true
				}
			}
			if !changed {
				continue
			}
			if r.usesRT {
				astutil.AddImport(cfg.Fset, f, rtPath)
			}
			var buf bytes.Buffer
			if err := format.Node(&buf, cfg.Fset, f); err != nil {
				fail("print %s: %v", name, err)
			}
			rel, _ := filepath.Rel(*repo, name)
			dst := filepath.Join(*out, strings.ReplaceAll(rel, "/", "__"))
			if err := os.WriteFile(dst, buf.Bytes(), 0o644); err != nil {
				fail("%v", err)
			}
			overlay[name] = dst
		}
	}
	if *rt != "" {
		filepath.Walk(*rt, func(path string, fi os.FileInfo, err error) error {
			if err == nil && !fi.IsDir() && strings.HasSuffix(path, ".go") {
				rel, _ := filepath.Rel(*rt, path)
				overlay[filepath.Join(*repo, "vsched", rel)] = path
			}
			return nil
		})
	}
	b, _ := json.MarshalIndent(map[string]interface{}{"Replace": overlay}, "", " ")
	if err := os.WriteFile(filepath.Join(*out, "overlay.json"), b, 0o644); err != nil {
		fail("%v", err)
	}
	fmt.Printf("vinst: %d files rewritten\n", len(overlay))
}
