#!/bin/sh
# Validates the instrumentation (the "conformance" obligation): the repository's own bgzf, bgzf/index and
# bam tests are run against the INSTRUMENTED bgzf/bgzf-cache sources with the scheduler in pass-through
# mode; they must give the baseline results (only bgzf TestEOF fails, as on the plain tree).
set -e
cd /verif
export GOFLAGS=-mod=mod GOPROXY=off GOSUMDB=off GOTOOLCHAIN=local CGO_ENABLED=0
rm -rf .build/selfcheck && mkdir -p .build/selfcheck
bin/vinst -repo /repo -out /verif/.build/selfcheck -rt /verif/vsched -maprange github.com/biogo/hts/bgzf/cache github.com/biogo/hts/bgzf github.com/biogo/hts/bgzf/cache >/dev/null
(cd /repo && go test -tags verif -overlay /verif/.build/selfcheck/overlay.json -vet=off -count=1 -v ./bgzf/... ./bam/ 2>&1) | grep -E '^(--- (PASS|FAIL)|ok|FAIL|panic)' > .build/selfcheck/result.txt || true
FAILS=$(grep -- '--- FAIL' .build/selfcheck/result.txt | grep -v 'TestEOF' | wc -l)
PASSES=$(grep -c -- '--- PASS' .build/selfcheck/result.txt)
echo "instrumented pass-through run: $PASSES tests passed, unexpected failures: $FAILS"
if [ "$FAILS" != "0" ] || [ "$PASSES" -lt 15 ]; then cat .build/selfcheck/result.txt; exit 1; fi
rm -rf .build/selfcheck
