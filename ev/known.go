package ev

import (
	"bufio"
	"fmt"
	"os"
	"regexp"
	"strings"
)

// Known is one line of known_findings.txt.
type Known struct {
	Status   string // "open" or "fixed"
	Property string
	Match    string
	Commit   string
	What     string
	Re       *regexp.Regexp
	Observed int
}

// LoadKnown parses known_findings.txt; the file is never written by the checks.
func LoadKnown(path string) []*Known {
	f, err := os.Open(path)
	if err != nil {
		return nil
	}
	defer f.Close()
	var ks []*Known
	sc := bufio.NewScanner(f)
	sc.Buffer(make([]byte, 1<<20), 1<<20)
	for sc.Scan() {
		l := strings.TrimSpace(sc.Text())
		if l == "" || strings.HasPrefix(l, "#") {
			continue
		}
		fs := strings.Fields(l)
		switch {
		case fs[0] == "open:" && len(fs) >= 4 && strings.HasPrefix(fs[1], "property=") && strings.HasPrefix(fs[2], "match="):
			k := &Known{Status: "open", Property: fs[1][9:], Match: fs[2][6:], What: strings.Join(fs[3:], " ")}
			re, err := regexp.Compile("^(?:" + k.Match + ")$")
			if err != nil {
				fmt.Fprintf(os.Stderr, "known_findings.txt: bad pattern %q: %v\n", k.Match, err)
				os.Exit(2)
			}
			k.Re = re
			ks = append(ks, k)
		case fs[0] == "fixed:" && len(fs) >= 4:
			ks = append(ks, &Known{Status: "fixed", Property: strings.TrimPrefix(fs[1], "property="), Commit: fs[2], What: strings.Join(fs[3:], " ")})
		default:
			fmt.Fprintf(os.Stderr, "known_findings.txt: cannot parse line %q\n", l)
			os.Exit(2)
		}
	}
	return ks
}
