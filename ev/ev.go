// Package ev holds what every check part reports: coverage counters, samples and violations.
// A part (one run of vseq or vconc for one property) writes a Part file; the driver vcheck
// merges the parts of a property, applies known_findings.json and writes evidence/<ID>.json.
package ev

import (
	"crypto/sha256"
	"encoding/binary"
	"encoding/json"
	"fmt"
	"os"
	"sort"
	"sync"
	"time"
)

// Violation is one failed oracle, identified by a signature (kind:site:class) that is stable
// across runs so that known findings can be matched against it.
type Violation struct {
	Sig  string      `json:"sig"`
	Msg  string      `json:"msg"`
	Case interface{} `json:"case"` // enough to re-execute: scenario parameters, operation list, choices
	N    int         `json:"n"`    // how many cases hit this signature in the run
}

// Part is the result of one part of a check.
type Part struct {
	Property    string                 `json:"property"`
	Part        string                 `json:"part"`
	Tier        string                 `json:"tier"`
	Exhaustive  bool                   `json:"exhaustive"`
	Evaluations int64                  `json:"evaluations"`
	Distinct    int64                  `json:"distinct_nontrivial"`
	States      int64                  `json:"states"`
	Transitions int64                  `json:"transitions"`
	Traces      int64                  `json:"traces_validated_against_impl"`
	Rule        string                 `json:"rule"`
	Samples     []interface{}          `json:"samples"`
	Extra       map[string]interface{} `json:"extra,omitempty"`
	Assumptions []string               `json:"assumptions,omitempty"`
	Violations  []*Violation           `json:"violations,omitempty"`
	Infra       string                 `json:"infra,omitempty"`
	WallS       float64                `json:"wall_s"`

	mu      sync.Mutex
	start   time.Time
	bySig   map[string]*Violation
	seen    map[[16]byte]struct{}
	maxSamp int
}

func NewPart(property, part, tier string) *Part {
	return &Part{Property: property, Part: part, Tier: tier, Exhaustive: true, start: time.Now(),
		bySig: map[string]*Violation{}, seen: map[[16]byte]struct{}{}, Extra: map[string]interface{}{}, maxSamp: 6}
}

// Eval counts n evaluated cases.
func (p *Part) Eval(n int64) { p.mu.Lock(); p.Evaluations += n; p.mu.Unlock() }

// Nontrivial records one non-trivial case by a content key; distinct keys are counted.
func (p *Part) Nontrivial(key ...interface{}) {
	h := sha256.New()
	for _, k := range key {
		switch v := k.(type) {
		case []byte:
			var l [8]byte
			binary.LittleEndian.PutUint64(l[:], uint64(len(v)))
			h.Write(l[:])
			h.Write(v)
		case string:
			var l [8]byte
			binary.LittleEndian.PutUint64(l[:], uint64(len(v)))
			h.Write(l[:])
			h.Write([]byte(v))
		default:
			fmt.Fprintf(h, "|%v", v)
		}
	}
	var k [16]byte
	copy(k[:], h.Sum(nil))
	p.mu.Lock()
	if _, ok := p.seen[k]; !ok {
		p.seen[k] = struct{}{}
		p.Distinct++
	}
	p.mu.Unlock()
}

// NontrivialN adds n cases that the caller has established to be distinct and non-trivial
// (used where the enumeration itself guarantees distinctness, e.g. a counter over a product).
func (p *Part) NontrivialN(n int64) { p.mu.Lock(); p.Distinct += n; p.mu.Unlock() }

func (p *Part) AddStates(states, transitions, traces int64) {
	p.mu.Lock()
	p.States += states
	p.Transitions += transitions
	p.Traces += traces
	p.mu.Unlock()
}

// Sample keeps the first few cases written out.
func (p *Part) Sample(s interface{}) {
	p.mu.Lock()
	if len(p.Samples) < p.maxSamp {
		p.Samples = append(p.Samples, s)
	}
	p.mu.Unlock()
}

func (p *Part) SetMaxSamples(n int) { p.maxSamp = n }

func (p *Part) AddExtra(k string, v interface{}) { p.mu.Lock(); p.Extra[k] = v; p.mu.Unlock() }

func (p *Part) AddCount(k string, n int64) {
	p.mu.Lock()
	c, _ := p.Extra[k].(int64)
	p.Extra[k] = c + n
	p.mu.Unlock()
}

func (p *Part) Assume(s string) { p.mu.Lock(); p.Assumptions = append(p.Assumptions, s); p.mu.Unlock() }

func (p *Part) NotExhaustive(why string) {
	p.mu.Lock()
	p.Exhaustive = false
	p.Extra["not_exhaustive_because"] = why
	p.mu.Unlock()
}

// Violate records a violation; only the first case per signature is kept (enumeration order is
// simplest-first, so this is the smallest witness), later ones are counted.
func (p *Part) Violate(sig, msg string, c interface{}) {
	p.mu.Lock()
	defer p.mu.Unlock()
	if v, ok := p.bySig[sig]; ok {
		v.N++
		return
	}
	// the case is serialised now: callers may go on mutating what they passed
	if raw, err := json.Marshal(c); err == nil {
		c = json.RawMessage(raw)
	}
	v := &Violation{Sig: sig, Msg: msg, Case: c, N: 1}
	p.bySig[sig] = v
	p.Violations = append(p.Violations, v)
}

func (p *Part) NumViolations() int { p.mu.Lock(); defer p.mu.Unlock(); return len(p.Violations) }

// Merge folds a worker's part into p.
func (p *Part) Merge(q *Part) {
	p.mu.Lock()
	defer p.mu.Unlock()
	p.Evaluations += q.Evaluations
	p.Distinct += q.Distinct
	p.States += q.States
	p.Transitions += q.Transitions
	p.Traces += q.Traces
	p.Exhaustive = p.Exhaustive && q.Exhaustive
	for _, s := range q.Samples {
		if len(p.Samples) < p.maxSamp {
			p.Samples = append(p.Samples, s)
		}
	}
	for k, v := range q.Extra {
		switch x := v.(type) {
		case float64: // counters come back from JSON as float64
			c, _ := p.Extra[k].(int64)
			if f, ok := p.Extra[k].(float64); ok {
				c = int64(f)
			}
			p.Extra[k] = c + int64(x)
		case int64:
			c, _ := p.Extra[k].(int64)
			p.Extra[k] = c + x
		default:
			if _, ok := p.Extra[k]; !ok {
				p.Extra[k] = v
			}
		}
	}
	for _, a := range q.Assumptions {
		dup := false
		for _, b := range p.Assumptions {
			dup = dup || a == b
		}
		if !dup {
			p.Assumptions = append(p.Assumptions, a)
		}
	}
	for _, v := range q.Violations {
		if w, ok := p.bySig[v.Sig]; ok {
			w.N += v.N
			continue
		}
		p.bySig[v.Sig] = v
		p.Violations = append(p.Violations, v)
	}
	if q.Infra != "" && p.Infra == "" {
		p.Infra = q.Infra
	}
}

// Write stores the part where the driver expects it.
func (p *Part) Write(path string) error {
	p.mu.Lock()
	defer p.mu.Unlock()
	p.WallS = time.Since(p.start).Seconds()
	sort.SliceStable(p.Violations, func(i, j int) bool { return p.Violations[i].Sig < p.Violations[j].Sig })
	b, err := json.MarshalIndent(p, "", " ")
	if err != nil {
		return err
	}
	return os.WriteFile(path, b, 0o644)
}

func ReadPart(path string) (*Part, error) {
	b, err := os.ReadFile(path)
	if err != nil {
		return nil, err
	}
	p := NewPart("", "", "")
	if err := json.Unmarshal(b, p); err != nil {
		return nil, err
	}
	for _, v := range p.Violations {
		p.bySig[v.Sig] = v
	}
	return p, nil
}
