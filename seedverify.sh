#!/bin/bash
# usage: seedverify.sh <dir containing patch.diff demo_test.go> <name>
# Confirms a seeded change in a scratch worktree of /repo's HEAD: demo passes unchanged, patch applies and
# builds, demo fails with it, the existing suite shows only the three baseline failures. Prints one summary line.
D=$1; NAME=$2
export GOFLAGS=-mod=mod GOPROXY=off GOSUMDB=off GOTOOLCHAIN=local
WT=/tmp/wt/v_$NAME
git -C /repo worktree remove --force $WT >/dev/null 2>&1
git -C /repo worktree add -q --detach $WT HEAD || { echo "$NAME worktree-failed"; exit 1; }
LOG=$D/verify.log; : > $LOG
PKG=$(head -3 $D/demo_test.go | grep -o 'place in: *[A-Za-z0-9_/]*' | head -1 | sed 's/place in: *//; s#/$##')
[ -z "$PKG" ] && { echo "$NAME no-package-comment"; git -C /repo worktree remove --force $WT; exit 1; }
TESTS=$(grep -o '^func Test[A-Za-z0-9_]*' $D/demo_test.go | sed 's/func //' | paste -sd'|')
cp $D/demo_test.go $WT/$PKG/zz_seed_demo_test.go
cd $WT
go test -vet=off -count=1 -run "^($TESTS)\$" ./$PKG/ >>$LOG 2>&1; R_UNCHANGED=$?
git apply $D/patch.diff >>$LOG 2>&1 || git apply -3 $D/patch.diff >>$LOG 2>&1; R_APPLY=$?
go build ./... >>$LOG 2>&1; R_BUILD=$?
timeout 600 go test -vet=off -count=1 -run "^($TESTS)\$" ./$PKG/ >>$LOG 2>&1; R_CHANGED=$?
rm -f $WT/$PKG/zz_seed_demo_test.go
timeout 1500 go test -vet=off -count=1 -v ./... 2>&1 | grep -E '^(--- FAIL|FAIL|panic)' > $D/suite_fail_lines.txt
UNEXP=$(grep -- '--- FAIL' $D/suite_fail_lines.txt | grep -v -E 'TestEOF|TestHasEOF|TestRead ' | wc -l)
PANIC=$(grep -c '^panic' $D/suite_fail_lines.txt)
cd /; git -C /repo worktree remove --force $WT
echo "$NAME pkg=$PKG demo_unchanged_rc=$R_UNCHANGED apply_rc=$R_APPLY build_rc=$R_BUILD demo_changed_rc=$R_CHANGED suite_unexpected_fails=$UNEXP suite_panics=$PANIC"
