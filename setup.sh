#!/bin/sh
# Builds the framework from files on disk only (offline). Run once after a fresh restore.
set -e
cd /verif
export GOFLAGS=-mod=mod GOPROXY=off GOSUMDB=off GOTOOLCHAIN=local CGO_ENABLED=0
mkdir -p bin evidence replays .build
go build -o bin/vcheck ./cmd/vcheck
go build -o bin/vinst ./vinst
# warm the build cache for the check binaries (they are rebuilt from /repo's tree by every check)
go build -tags verif -o .build/warm-vseq ./cmd/vseq
rm -f .build/warm-vseq
if [ -d cmd/vconc ] && ls cmd/vconc/*.go >/dev/null 2>&1; then
  rm -rf .build/warm && mkdir -p .build/warm
  bin/vinst -repo /repo -out /verif/.build/warm -rt /verif/vsched -maprange github.com/biogo/hts/bgzf/cache github.com/biogo/hts/bgzf github.com/biogo/hts/bgzf/cache
  go build -tags verif -overlay .build/warm/overlay.json -o .build/warm/vconc ./cmd/vconc
  rm -rf .build/warm
fi
# the instrumentation must reproduce the baseline results of the repository's own tests (pass-through mode)
./selfcheck.sh
echo setup ok
