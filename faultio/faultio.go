// Package faultio holds in-memory I/O doubles that log every call, can fail a chosen call and
// expose a hook (a scheduling point under the controlled scheduler) inside every call.
package faultio

import (
	"errors"
	"io"
)

// ErrInjected is the error returned by an injected fault.
var ErrInjected = errors.New("faultio: injected fault")

// Fault says which call fails and how.
type Fault struct {
	At      int  // 1-based index of the first failing call of the kind; 0 = never
	Partial bool // transfer half of the bytes, then fail (never a silent short write)
	Once    bool // only that one call fails; later calls work again
}

func (f Fault) hits(call int) bool {
	if f.At == 0 {
		return false
	}
	if f.Once {
		return call == f.At
	}
	return call >= f.At
}

// Writer is an append-only device.
type Writer struct {
	Hook       func() // called at the start and at the end of every Write (scheduling points)
	Data       []byte
	Calls      int
	Fault      Fault
	Failed     int             // number of calls that returned an error
	LastFailed bool            // the call in progress (or last call) returned an error
	Lens       []int           // len(Data) at the return of every Write call
	After      func(w *Writer) // called when a Write has returned its result (still inside the call)
}

func (w *Writer) Write(p []byte) (int, error) {
	if w.Hook != nil {
		w.Hook()
	}
	w.Calls++
	n, err := len(p), error(nil)
	w.LastFailed = false
	if w.Fault.hits(w.Calls) {
		n, err = 0, ErrInjected
		if w.Fault.Partial {
			n = len(p) / 2
		}
		w.Failed++
		w.LastFailed = true
	}
	w.Data = append(w.Data, p[:n]...)
	w.Lens = append(w.Lens, len(w.Data))
	if w.After != nil {
		w.After(w)
	}
	if w.Hook != nil {
		w.Hook()
	}
	return n, err
}

// ReadSeeker is a file double.
type ReadSeeker struct {
	Hook      func()
	Data      []byte
	Pos       int64
	Reads     int
	Seeks     int
	ReadFault Fault
	SeekFault Fault
	MaxRead   int // if >0, a Read transfers at most this many bytes (short reads are legal)
	Failed    int
}

func (r *ReadSeeker) Read(p []byte) (int, error) {
	if r.Hook != nil {
		r.Hook()
	}
	r.Reads++
	if r.ReadFault.hits(r.Reads) {
		r.Failed++
		if r.ReadFault.Partial && r.Pos < int64(len(r.Data)) && len(p) > 1 {
			n := copy(p[:len(p)/2], r.Data[r.Pos:])
			r.Pos += int64(n)
			return n, ErrInjected
		}
		return 0, ErrInjected
	}
	if r.Pos >= int64(len(r.Data)) {
		return 0, io.EOF
	}
	if r.MaxRead > 0 && len(p) > r.MaxRead {
		p = p[:r.MaxRead]
	}
	n := copy(p, r.Data[r.Pos:])
	r.Pos += int64(n)
	return n, nil
}

func (r *ReadSeeker) Seek(off int64, whence int) (int64, error) {
	if r.Hook != nil {
		r.Hook()
	}
	r.Seeks++
	if r.SeekFault.hits(r.Seeks) {
		r.Failed++
		return r.Pos, ErrInjected
	}
	switch whence {
	case io.SeekStart:
	case io.SeekCurrent:
		off += r.Pos
	case io.SeekEnd:
		off += int64(len(r.Data))
	}
	if off < 0 {
		return r.Pos, errors.New("faultio: negative position")
	}
	r.Pos = off
	return off, nil
}

// Reader hides Seek (a plain io.Reader).
type Reader struct{ RS *ReadSeeker }

func (r Reader) Read(p []byte) (int, error) { return r.RS.Read(p) }
