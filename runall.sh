#!/bin/sh
# usage: runall.sh quick|thorough [IDs...] — runs the checks one after another and prints one summary line each
cd /verif || exit 2
T=${1:-quick}; [ $# -gt 0 ] && shift
IDS="$@"; [ -z "$IDS" ] && IDS="C01 C02 C03 C04 C05 C06 C07 C08 C09 C10 C11 C12 C13 C14 C15 C16 C17 C18 C19 C20"
mkdir -p .build/runall
for p in $IDS; do
  s=$(date +%s)
  ./check $p $T > .build/runall/$p.$T.out 2>&1; rc=$?
  e=$(date +%s)
  echo "$p rc=$rc wall=$((e-s))s viol=$(grep -c '^VIOLATION' .build/runall/$p.$T.out) known=$(grep -c '^KNOWN-FINDING' .build/runall/$p.$T.out) $(tail -1 .build/runall/$p.$T.out | cut -c1-160)"
done
echo ALLDONE
