#!/bin/sh
# usage: seedtest.sh <patch.diff> <ID> [tier]  — applies a seeded change to /repo, runs the check, reverts.
P=$1; ID=$2; TIER=${3:-quick}
[ -f "$(dirname $P)/patch.rebased.diff" ] && P="$(dirname $P)/patch.rebased.diff"
cd /repo || exit 2
if ! git diff --quiet; then echo "repo dirty"; exit 2; fi
git apply "$P" || { echo "patch does not apply"; git reset -q --hard HEAD; exit 2; }
git -C /repo diff --stat | tail -1
cd /verif && ./check $ID $TIER 2>/tmp/seedtest.err | grep -E "VIOLATION|KNOWN" | head -5; rc=$?
grep -E "^--- " /tmp/seedtest.err | head -5
tail -1 /tmp/seedtest.err
git -C /repo checkout -- . ; git -C /repo status --short | grep -v '^??'
