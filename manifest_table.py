ENGINES = [
 {"name": "vsched+vinst (E1)", "path": "/verif/vsched, /verif/vinst, /verif/cmd/vconc", "serves_properties": [], "kind_free_text": "cooperative scheduler + stateless DFS explorer with preemption bounding and happens-before state caching, run on the real bgzf code after a mechanical channel/sync rewrite (go build -overlay)"},
 {"name": "xmc (E2)", "path": "/verif/cmd/vseq", "serves_properties": [], "kind_free_text": "explicit-state BFS over real operations with canonical state keys (replay from initial state)"},
 {"name": "enum (E3)", "path": "/verif/cmd/vseq, /verif/refimpl", "serves_properties": ["C20"], "kind_free_text": "bounded-exhaustive enumeration of finite input alphabets / whole small domains against independent reference implementations"},
]
NOTES = "All checks: ./check <ID> quick|thorough. Known findings in /verif/known_findings.txt. See DESIGN.md."
NOT_APPLICABLE = {}

chk("C20", "exploration",
    "Exhaustive enumeration: the complete int32 domain (2^32 values) for ITF-8 in both tiers, a stratified full product for LTF-8 (all nine length classes, boundaries, byte-pair sweeps in thorough) and all first bytes x available lengths 0..9 for decoding, each compared with an encoder/decoder written from CRAM v3 §2.3. For ITF-8 this is the whole quantifier domain; for LTF-8 it covers one representative per shift/mask in the code.",
    "Trusts refimpl/tf8.go (30 lines, from the specification) and Go slice bounds checking to expose over-reads (exact-capacity buffers).",
    "bounded-exhaustive enumeration (whole int32 domain) against a specification reference", "DESIGN.md §3 C20", "enum (E3)")

chk("C14", "model_checking",
    "Explicit-state BFS to a fixpoint over sequential operation histories on each provided cache (every transition executed on the real cache under the controlled scheduler, so a self-deadlock is detected exactly; Random's map order is an explorer choice), compared step by step with a list model of the documented policy; plus every interleaving of 2-3 goroutines x 1-2 operations on colliding bases, each complete call/return history checked for linearizability against the same model with porcupine.",
    "Trusts the reference model in cmd/vconc/cachemodel.go (written from the package documentation and the bgzf.Cache interface comments), the scheduler's model of sync.RWMutex (validated by the litmus suite and by running the repository's tests against the instrumented build in pass-through mode), and data-race freedom between synchronisation operations (checked separately with -race). Bounds: bases {0,1,2}, capacities 1..3, <=3 goroutines, <=3 concurrent operations.",
    "explicit-state BFS to fixpoint over real operations + exhaustive interleaving exploration (controlled scheduler) with porcupine linearizability checking", "DESIGN.md §3 C14", "vsched+vinst (E1) / xmc (E2)")
