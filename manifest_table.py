ENGINES = [
 {"name": "vsched+vinst (E1)", "path": "/verif/vsched, /verif/vinst, /verif/cmd/vconc", "serves_properties": [], "kind_free_text": "cooperative scheduler + stateless DFS explorer with preemption bounding and happens-before state caching, run on the real bgzf code after a mechanical channel/sync rewrite (go build -overlay)"},
 {"name": "xmc (E2)", "path": "/verif/cmd/vseq", "serves_properties": [], "kind_free_text": "explicit-state BFS over real operations with canonical state keys (replay from initial state)"},
 {"name": "enum (E3)", "path": "/verif/cmd/vseq, /verif/refimpl", "serves_properties": ["C20"], "kind_free_text": "bounded-exhaustive enumeration of finite input alphabets / whole small domains against independent reference implementations"},
]
NOTES = "All checks: ./check <ID> quick|thorough. Known findings in /verif/known_findings.txt. See DESIGN.md."
NOT_APPLICABLE = {}

chk("C20", "exploration",
    "Exhaustive enumeration: the complete int32 domain (2^32 values) for ITF-8 in both tiers, a stratified full product for LTF-8 (all nine length classes, boundaries, byte-pair sweeps in thorough) and all first bytes x available lengths 0..9 for decoding, each compared with an encoder/decoder written from CRAM v3 §2.3. For ITF-8 this is the whole quantifier domain; for LTF-8 it covers one representative per shift/mask in the code.",
    "Trusts refimpl/tf8.go (30 lines, from the specification) and Go slice bounds checking to expose over-reads (exact-capacity buffers).",
    "bounded-exhaustive enumeration (whole int32 domain) against a specification reference", "DESIGN.md §3 C20", "enum (E3)")
