ENGINES = [
 {"name": "vsched+vinst (E1)", "path": "/verif/vsched, /verif/vinst, /verif/cmd/vconc", "serves_properties": [], "kind_free_text": "cooperative scheduler + stateless DFS explorer with preemption bounding and happens-before state caching, run on the real bgzf code after a mechanical channel/sync rewrite (go build -overlay)"},
 {"name": "xmc (E2)", "path": "/verif/cmd/vseq", "serves_properties": [], "kind_free_text": "explicit-state BFS over real operations with canonical state keys (replay from initial state)"},
 {"name": "enum (E3)", "path": "/verif/cmd/vseq, /verif/refimpl", "serves_properties": ["C20"], "kind_free_text": "bounded-exhaustive enumeration of finite input alphabets / whole small domains against independent reference implementations"},
]
NOTES = "All checks: ./check <ID> quick|thorough. Known findings in /verif/known_findings.txt. See DESIGN.md."
NOT_APPLICABLE = {}

chk("C20", "exploration",
    "Exhaustive enumeration: the complete int32 domain (2^32 values) for ITF-8 in both tiers, a stratified full product for LTF-8 (all nine length classes, boundaries, byte-pair sweeps in thorough) and all first bytes x available lengths 0..9 for decoding, each compared with an encoder/decoder written from CRAM v3 §2.3. For ITF-8 this is the whole quantifier domain; for LTF-8 it covers one representative per shift/mask in the code.",
    "Trusts refimpl/tf8.go (30 lines, from the specification) and Go slice bounds checking to expose over-reads (exact-capacity buffers).",
    "bounded-exhaustive enumeration (whole int32 domain) against a specification reference", "DESIGN.md §3 C20", "enum (E3)")

chk("C14", "model_checking",
    "Explicit-state BFS to a fixpoint over sequential operation histories on each provided cache (every transition executed on the real cache under the controlled scheduler, so a self-deadlock is detected exactly; Random's map order is an explorer choice), compared step by step with a list model of the documented policy; plus every interleaving of 2-3 goroutines x 1-2 operations on colliding bases, each complete call/return history checked for linearizability against the same model with porcupine.",
    "Trusts the reference model in cmd/vconc/cachemodel.go (written from the package documentation and the bgzf.Cache interface comments), the scheduler's model of sync.RWMutex (validated by the litmus suite and by running the repository's tests against the instrumented build in pass-through mode), and data-race freedom between synchronisation operations (checked separately with -race). Bounds: bases {0,1,2}, capacities 1..3, <=3 goroutines, <=3 concurrent operations.",
    "explicit-state BFS to fixpoint over real operations + exhaustive interleaving exploration (controlled scheduler) with porcupine linearizability checking", "DESIGN.md §3 C14", "vsched+vinst (E1) / xmc (E2)")

chk("C02", "model_checking",
    "rd=1: explicit-state BFS to a fixpoint over Seek/Read/ReadByte/Blocked histories on the real Reader (state key = dump of the Reader's mutable fields; merged transitions re-validated by a read-to-end probe), every transition compared with the flat-stream model. rd>1: every history up to length 3 (4 in thorough) over a reduced menu, every schedule of consumer, read-ahead worker and decompressor goroutines up to 2 (3) preemptions on the instrumented code, each observation compared with the same model; deadlock, leak and panic detected exactly.",
    "Trusts rdr.Model (the flat semantics written from the property statement), refimpl's BGZF encoder for the input files, the scheduler's model of channels/select/WaitGroup/RWMutex, and DRF between synchronisation operations. Bounds: files of 3-4 tiny blocks (one real 65280-byte block in thorough), history length, preemption bound.",
    "explicit-state BFS to fixpoint (rd=1) + preemption-bounded exhaustive schedule exploration with HB state caching (rd>1) against a flat reference model", "DESIGN.md §3 C02", "xmc (E2) + vsched+vinst (E1)")

chk("C03", "model_checking",
    "rd=1: one BFS to a fixpoint per cache kind x capacity with SetCache(kind)/SetCache(nil) as operations, the cache queue in the state key, every transition compared with an uncached Reader driven in lockstep (bytes, error class, LastChunk value) and with a livelock horizon on cache/underlying calls. rd>1: histories up to length 2-3 with the cache attached up front or after the first operation, all schedules up to 2 preemptions (Random's eviction order is an explorer choice), flat-model oracle, exact deadlock/leak/panic detection.",
    "As C02. Known open findings (FIFO.Get contract violation and its consequences; read-ahead worker not re-positioned by a cache-served Seek / skipping a block that is then evicted) are matched by signature and exploration continues past them, so other violations in the same scenarios are still reported; states in which the cache aliases the Reader's current block are searched to depth 3 for an observable consequence rather than expanded.",
    "explicit-state BFS to fixpoint, differential against an uncached reader (rd=1) + preemption-bounded exhaustive schedule exploration (rd>1)", "DESIGN.md §3 C03", "xmc (E2) + vsched+vinst (E1)")

chk("C12", "model_checking",
    "All schedules (preemption bound 2 quick / 3 thorough, unbounded for the smallest scripts) of compressor goroutines, the emitter and a device double whose Write has scheduling points, for a family of Write/Flush/Wait/Close scripts, wc 1..3, including full 65280-byte blocks, incompressible content and one-shot device failures, plus a bam.Writer. In every execution every device snapshot (at each underlying Write return) is parsed by an independent RFC1952/BGZF parser: it must end on a member boundary and decode to a prefix of the bytes offered; Flush+Wait==nil and Close==nil durability are checked at the call returns. Scenarios with full blocks are additionally explored without state caching because the happens-before key cannot distinguish orders of unsynchronised accesses.",
    "Trusts refimpl.ParseStream, the scheduler's primitives, and (for the cached explorations) data-race freedom. Bounds: scripts of <= 12 calls, <= 3 full blocks, preemption bound.",
    "preemption-bounded exhaustive schedule exploration with device snapshots at every write return (crash points)", "DESIGN.md §3 C12", "vsched+vinst (E1)")

chk("C09", "fault_enumeration",
    "Every index k of the underlying Write (writer workloads, wc 1..3) and of the underlying Read and Seek calls (reader workloads, rd 1..3, with and without a cache) fails - plain error or error after a partial transfer, persistent or one-shot - and for every such cell all schedules up to 2 (3) preemptions are explored on the instrumented code with scheduling points inside the device calls. Deadlock, goroutine leak after Close and panic are detected exactly by the scheduler; the oracle checks that Close reports the failure, that a reported failure is not forgotten by later calls, that nothing reaches the device after a failed write, and that every byte a reader returns equals the flat copy at its position with io.EOF only at the true end.",
    "Trusts the device doubles (faultio), rdr.Model, refimpl.ParseStream and the scheduler's primitives. Cache + read-ahead is exercised under C03; here a cache is combined with rd=1 only, to stay clear of the open C03 read-ahead findings. Bounds: 9 workloads, preemption bound, files of 3 tiny blocks + marker with 64-byte short reads.",
    "exhaustive fault-index enumeration x preemption-bounded exhaustive schedule exploration", "DESIGN.md §3 C09", "vsched+vinst (E1)")

chk("C01", "model_checking",
    "Two parts. sched: all schedules up to 2 (3) preemptions of the instrumented writer (scripts with tiny blocks cut by Flush, three full blocks through Write alone, also without state caching) and reader (four read plans to io.EOF on four block layouts incl. empty blocks and a missing EOF marker, rd 2 and 3, API-call boundaries as scheduling points), and a composed write-then-read execution; oracle = decoded device content equals the written bytes / bytes read equal the flat copy then io.EOF; deadlock, leak, panic exact. scripts: the full product of all write scripts of <=2 operations over 8 payload-length classes around 0, 1, BlockSize and multi-block, Flush and Wait x 2 contents x 4 (11) levels x wc 0..3 x rd 0..3 x 4 read plans on the free-running uninstrumented library.",
    "Trusts refimpl.ParseStream, rdr.Model and the scheduler; the scripts part sees one (free-running) schedule per case and uses a 120 s watchdog for stalls. Payload lengths outside the 8 classes and scripts longer than 2 (3) operations are not covered.",
    "preemption-bounded exhaustive schedule exploration + bounded-exhaustive script x configuration enumeration", "DESIGN.md §3 C01", "vsched+vinst (E1) + enum (E3)")

chk("C08", "exploration",
    "framing: every output of the script x content x level x wc product (closed and unclosed), of 72 gzip header settings (Name, Comment, well-formed Extra subfields incl. data containing the BC prefix, ModTime incl. a value whose bytes spell the BC prefix, OS) and of Name lengths swept across the 64 KiB member limit is walked by an independent RFC1952/BGZF parser (FEXTRA, BC subfield == member length-1, <=65536/<=65280, CRC32, ISIZE, contiguity), decoded by compress/gzip, checked for marker <=> Close()==nil and HasEOF, and compared byte for byte across wc. sched: the writer scripts under all schedules up to the preemption bound must produce identical bytes in every schedule.",
    "Trusts refimpl.ParseStream (written from RFC 1952 and SAM v1 section 4.1; only DEFLATE itself comes from compress/flate) and compress/gzip as the 'standard decoder'.",
    "bounded-exhaustive enumeration against an independent framing parser + exhaustive schedule exploration for schedule independence", "DESIGN.md §3 C08", "enum (E3) + vsched+vinst (E1)")

chk("C16", "exploration",
    "Exhaustive enumeration against transcriptions of the specification's reg2bin/reg2bins: BAI BinFor over all 2^15 x 2^15 begin/end tile pairs x 9 in-tile offset combinations (thorough; a boundary-dense subset in quick), OverlappingBinsFor as sets on every short span and all boundary tile pairs, CSI functions on 7 geometries at all level-boundary positions, the overlap-consistency statement itself over ALL overlapping interval pairs of every CSI geometry with at most 256 positions and over a boundary alphabet for BAI, and End/Len/Lengths/IsValid/Bin for all CIGARs of <=3 (4) operations over the ten op types and lengths {1,2,2^28-1}.",
    "Trusts refimpl/bins.go (from SAM v1 section 5.3 and the CSI specification) and the CIGAR semantics written in cmd/vseq/c16.go from SAM v1 section 1.4.6; B is handled as the library documents it (not in the specification). Positions are covered at tile granularity with in-tile offsets {0,1,T-1}.",
    "bounded-exhaustive enumeration (whole tile-pair domain in thorough) against specification references", "DESIGN.md §3 C16", "enum (E3)")

chk("C17", "exploration",
    "All chunk lists with non-decreasing Begin of length <=4 (5) over the 21 chunks of a 6-offset alphabet (zero-length, nested, touching, duplicate chunks and every order among equal Begins included) and of length <=6 (8) over a 4-offset alphabet, for Identity, Adjacent, Squash and Compressor with four thresholds; coverage compared on the grid of elementary intervals, plus the strategy-specific postconditions and idempotence.",
    "The oracle is a direct transcription of the property statement on a finite grid; offsets outside the alphabet are not covered.",
    "bounded-exhaustive enumeration over a small offset alphabet", "DESIGN.md §3 C17", "enum (E3)")

chk("C19", "exploration",
    "All FASTA files from the product of 1-3 records x line width 1-4 x sequence lengths around the line width x LF/CRLF x final newline x description x blank line between records; for each: NewIndex against the true layout, index write/read/write identity, and every (name,start,end) with every buffer size in {1,2,3,7,64} through File.SeqRange/Seq read loops with a progress horizon.",
    "Generator and expected layout live in cmd/vseq/c19.go (independent of the library). Line widths > 4 and more than 3 records are not covered.",
    "bounded-exhaustive enumeration of small FASTA files x all ranges x buffer sizes", "DESIGN.md §3 C19", "enum (E3)")

chk("C10", "fault_enumeration",
    "Every truncation length and every single-byte substitution (9 values per position in quick, all 255 in thorough) of seven small closed streams (BGZF from the library writer and from an independent encoder incl. an empty block; BAM from bam.Writer and re-blocked so that records end at, span and straddle block ends and a block ends right after a length prefix), plus full 65280-byte blocks mutated at every position near member boundaries and every 61st (7th) elsewhere; rd 1 and 2. Truncation must yield a prefix then an error, a clean end only at a member (and record) boundary with HasEOF false; substitution must fail or return exactly the original.",
    "Member and record boundaries come from refimpl.ParseStream and a BAM length walker; the HasEOF clause is skipped when the prefix itself ends in an empty member (byte-identical to the marker by the format). Larger streams are mutated sparsely as stated.",
    "exhaustive crash-point (truncation) and single-byte corruption enumeration", "DESIGN.md §3 C10", "enum (E3)")

chk("C13", "exploration",
    "BAM: one record stream re-blocked by an independent BGZF encoder at every set of <=2 cut positions around record boundaries (incl. inside length prefixes, with optional empty blocks); for every file every list of <=2 (3) record-range chunks in every order through bam.Iterator, rd 1 and 2. ChunkReader: eight block layouts, every ascending non-overlapping list of <=2 (3) chunks over ALL virtual offsets (both spellings of block ends, zero-length chunks), four buffer sizes; oracle = flat bytes, then io.EOF within a progress horizon.",
    "BAM stream from refimpl's BAM encoder, files from refimpl's BGZF encoder; record sizes are small (no record larger than a block in quick).",
    "bounded-exhaustive enumeration of block layouts x chunk lists x buffer sizes", "DESIGN.md §3 C13", "enum (E3)")

chk("C04", "model_checking",
    "Bounded explicit-state search over index states: every sorted sequence of 1-2 records over a boundary-biased interval alphabet (every bin-level edge +-1, tile edges, the 2^29 limit) and every sequence of 3 over a reduced alphabet, on reference patterns incl. a reference without records, placed-unmapped and unplaced records, each added with the real Add of BAI, tabix and CSI (five geometries); in every state every query of a position alphabet on every reference must be answered with chunks covering every overlapping record (error or empty answer only if nothing overlaps), Add must not fail or panic; repeated after write->read and after MergeChunks with five strategies.",
    "States are not de-duplicated (every sequence is its own state; transitions = Add calls). Chunks are synthetic consecutive virtual offsets exercising same-block, block-end and next-block forms; the end-to-end pass through a written BAM is covered by C13/C05. Alphabets are finite: positions between the listed edges are represented by their neighbours.",
    "explicit-state enumeration of real Add sequences with an exhaustive query sweep in every state", "DESIGN.md §3 C04", "xmc (E2) / enum (E3)")

chk("C15", "exploration",
    "For every index state of the C04 generator (BAI, tabix with varied header fields, CSI v1/v2 with and without auxiliary bytes on four geometries): write -> read -> write byte identity, identical answers to every C04 query before and after, and NumRefs / per-reference mapped, unmapped and span statistics / unplaced count equal on both sides and equal to the true counts of the records added.",
    "True counts are computed by the harness from the generated records (tabix references are numbered by first appearance of their names). 'Missing stats' and 'absent trailing unplaced count' variants are reached through states without placed/unplaced records.",
    "bounded-exhaustive enumeration of index states through the real writer and reader", "DESIGN.md §3 C15", "enum (E3)")
