ENGINES = [
 {"name": "vsched+vinst (E1)", "path": "/verif/vsched, /verif/vinst, /verif/cmd/vconc", "serves_properties": [], "kind_free_text": "cooperative scheduler + stateless DFS explorer with preemption bounding and happens-before state caching, run on the real bgzf code after a mechanical channel/sync rewrite (go build -overlay)"},
 {"name": "xmc (E2)", "path": "/verif/cmd/vseq", "serves_properties": [], "kind_free_text": "explicit-state BFS over real operations with canonical state keys (replay from initial state)"},
 {"name": "enum (E3)", "path": "/verif/cmd/vseq, /verif/refimpl", "serves_properties": ["C20"], "kind_free_text": "bounded-exhaustive enumeration of finite input alphabets / whole small domains against independent reference implementations"},
]
NOTES = "All checks: ./check <ID> quick|thorough. Known findings in /verif/known_findings.txt. See DESIGN.md."
NOT_APPLICABLE = {}

chk("C20", "exploration",
    "Exhaustive enumeration: the complete int32 domain (2^32 values) for ITF-8 in both tiers, a stratified full product for LTF-8 (all nine length classes, boundaries, byte-pair sweeps in thorough) and all first bytes x available lengths 0..9 for decoding, each compared with an encoder/decoder written from CRAM v3 §2.3. For ITF-8 this is the whole quantifier domain; for LTF-8 it covers one representative per shift/mask in the code.",
    "Trusts refimpl/tf8.go (30 lines, from the specification) and Go slice bounds checking to expose over-reads (exact-capacity buffers).",
    "bounded-exhaustive enumeration (whole int32 domain) against a specification reference", "DESIGN.md §3 C20", "enum (E3)")

chk("C14", "model_checking",
    "Explicit-state BFS to a fixpoint over sequential operation histories on each provided cache (every transition executed on the real cache under the controlled scheduler, so a self-deadlock is detected exactly; Random's map order is an explorer choice), compared step by step with a list model of the documented policy; plus every interleaving of 2-3 goroutines x 1-2 operations on colliding bases, each complete call/return history checked for linearizability against the same model with porcupine.",
    "Trusts the reference model in cmd/vconc/cachemodel.go (written from the package documentation and the bgzf.Cache interface comments), the scheduler's model of sync.RWMutex (validated by the litmus suite and by running the repository's tests against the instrumented build in pass-through mode), and data-race freedom between synchronisation operations (checked separately with -race). Bounds: bases {0,1,2}, capacities 1..3, <=3 goroutines, <=3 concurrent operations.",
    "explicit-state BFS to fixpoint over real operations + exhaustive interleaving exploration (controlled scheduler) with porcupine linearizability checking", "DESIGN.md §3 C14", "vsched+vinst (E1) / xmc (E2)")

chk("C02", "model_checking",
    "rd=1: explicit-state BFS to a fixpoint over Seek/Read/ReadByte/Blocked histories on the real Reader (state key = dump of the Reader's mutable fields; merged transitions re-validated by a read-to-end probe), every transition compared with the flat-stream model. rd>1: every history up to length 3 (4 in thorough) over a reduced menu, every schedule of consumer, read-ahead worker and decompressor goroutines up to 2 (3) preemptions on the instrumented code, each observation compared with the same model; deadlock, leak and panic detected exactly.",
    "Trusts rdr.Model (the flat semantics written from the property statement), refimpl's BGZF encoder for the input files, the scheduler's model of channels/select/WaitGroup/RWMutex, and DRF between synchronisation operations. Bounds: files of 3-4 tiny blocks (one real 65280-byte block in thorough), history length, preemption bound.",
    "explicit-state BFS to fixpoint (rd=1) + preemption-bounded exhaustive schedule exploration with HB state caching (rd>1) against a flat reference model", "DESIGN.md §3 C02", "xmc (E2) + vsched+vinst (E1)")

chk("C03", "model_checking",
    "rd=1: one BFS to a fixpoint per cache kind x capacity with SetCache(kind)/SetCache(nil) as operations, the cache queue in the state key, every transition compared with an uncached Reader driven in lockstep (bytes, error class, LastChunk value) and with a livelock horizon on cache/underlying calls. rd>1: histories up to length 2-3 with the cache attached up front or after the first operation, all schedules up to 2 preemptions (Random's eviction order is an explorer choice), flat-model oracle, exact deadlock/leak/panic detection.",
    "As C02. Known open findings (FIFO.Get contract violation and its consequences; read-ahead worker not re-positioned by a cache-served Seek / skipping a block that is then evicted) are matched by signature and exploration continues past them, so other violations in the same scenarios are still reported; states in which the cache aliases the Reader's current block are searched to depth 3 for an observable consequence rather than expanded.",
    "explicit-state BFS to fixpoint, differential against an uncached reader (rd=1) + preemption-bounded exhaustive schedule exploration (rd>1)", "DESIGN.md §3 C03", "xmc (E2) + vsched+vinst (E1)")

chk("C12", "model_checking",
    "All schedules (preemption bound 2 quick / 3 thorough, unbounded for the smallest scripts) of compressor goroutines, the emitter and a device double whose Write has scheduling points, for a family of Write/Flush/Wait/Close scripts, wc 1..3, including full 65280-byte blocks, incompressible content and one-shot device failures, plus a bam.Writer. In every execution every device snapshot (at each underlying Write return) is parsed by an independent RFC1952/BGZF parser: it must end on a member boundary and decode to a prefix of the bytes offered; Flush+Wait==nil and Close==nil durability are checked at the call returns. Scenarios with full blocks are additionally explored without state caching because the happens-before key cannot distinguish orders of unsynchronised accesses.",
    "Trusts refimpl.ParseStream, the scheduler's primitives, and (for the cached explorations) data-race freedom. Bounds: scripts of <= 12 calls, <= 3 full blocks, preemption bound.",
    "preemption-bounded exhaustive schedule exploration with device snapshots at every write return (crash points)", "DESIGN.md §3 C12", "vsched+vinst (E1)")
